(** C01 — the emitted worklist is a refinement of the tracked labware state: executing the records that
    aspirate / dispense / transfer (with or without splitting) / distribute append, with an independent
    interpreter of the worklist format (Spec/Robot.v: racks found by label, device numbering inverted,
    A / D / R records executed on the interpreter's own rack state), starting from the labware's initial
    contents, gives every well the volume the Labware objects report, and every record addresses the rack
    and the device-specific well number of the well the operation named.
    Statements only; proofs live in Proofs/RefinementProofs.v (records, addressing, composition),
    Proofs/RefinementTextProofs.v (the rendered worklist, composition after distribute) and
    Proofs/RefinementExtraProofs.v (checked replay, the refuted composition clause, Fluent and float examples).
    Proofs/CentsProofs.v: the two-decimals hypothesis [cents_ok] of the text theorems derived from the INPUTS of
    the program ([C01_cents_from_inputs], [C01_run_text_exact_inputs], [C01_run_text_checked_inputs]).

    Definitions used (Proofs/RefinementProofs.v):
    [rack_sim L r]: rack [r] has the name, geometry, min and max of labware [L] and [Forall2 Qeq] volumes
      (the tracking normalises with Qred, the interpreter does not, hence [==]);
    [sim s rb] = [Forall2 rack_sim (st_lw s) (rb_racks rb)] (the content of the tip is not constrained);
    [good_state s] = [wf_state s], labware names pairwise distinct, device Evo or Fluent;
    [distribute_dev_ok s ks]: the device is Evo, or it is Fluent and the source trough has one virtual row;
    [dst_positions_distinct s kd dwells]: the device positions of the destination ids are pairwise distinct
      (an R record cannot say "twice into the same position");
    [wl_op o]: [o] is aspirate / dispense / transfer / distribute or a record-only call (comment, wash,
      decontaminate, flush, commit, set_diti); [op_ok s o]: the two side conditions above if [o] is a distribute;
    [ad_addresses d name g asp (well, x) r]: [r] is an A ([asp]) or D record with rack label [name], position
      [device_position d g well] and volume [x];
    [record_dsts f]: the positions [r_dst_start .. r_dst_end] of an R record without its exclusions.
    The two-decimal rendering of a volume ([fmt2]) is a property of the text file, not of the records: the
    interpreter executes the exact [ad_volume]; C07 bounds the rendering error per record.

    Known finding F12 ([C01_distribute_fluent_refuted]): FluentWorklist.distribute writes the source range in
    EVO numbering; with a multi-row trough the record does not address the source column on a Fluent.

    Composition: [cfrac comp k i] = fraction of component [k] in real well [i] of a composition table (0 for an
    unknown name); [cinv L]: component names of [L] pairwise distinct, no negative fraction; [cstate s]: every
    labware is [cinv]; [rack_csim L r] = [rack_sim L r], the rack's table is well-shaped, and
    [cfrac (rk_comp r) k j == cfrac (lw_comp L) k j] for all [k], [j]; [csim s rb] = [Forall2 rack_csim];
    [tr_op o]: [o] is a transfer or a record-only call.  Proved for pipetting steps, transfers and programs of
    transfers, and (last section of this file) for [distribute] and programs of transfers and distributes.
    The composition clause is about liquid that ORIGINATES from initially filled wells and is moved by
    transfer / distribute; for a stand-alone aspirate followed by a stand-alone dispense it is false
    ([C01_composition_dispense_refuted]): a bare dispense has no origin in the tracking.
    The section "the rendered worklist" relates the TEXT of the records to the tracked volumes, with the
    interpreter's limit checks off ([C01_run_text_exact / _bound]) and on ([C01_run_text_checked]). *)
From Robo Require Import Prelude Str Wells Utils Labware Tips Records Partition Params Worklist EvoCmd
  Program Invariants Robot LabwareProofs RefinementProofs.
From Robo Require Import Gwl RecordsProofs RefinementTextProofs RefinementExtraProofs CentsProofs.
From Coq Require Import Sorting.Sorted.
#[local] Open Scope Q_scope.

(* ------------------------------------------------------------------ numbering and rack lookup *)

(** [unpos] inverts the device numbering on every known well id, plates and troughs *)
Theorem C01_unpos_evo : forall g s rc p, wf_geom g -> well_index g s = Some rc ->
  device_position Evo g s = Ok p -> unpos Evo g p = Some (flat_index g rc).
Proof. exact unpos_evo. Qed.
Print Assumptions C01_unpos_evo.

Theorem C01_unpos_fluent : forall g s rc p, wf_geom g -> well_index g s = Some rc ->
  device_position Fluent g s = Ok p -> unpos Fluent g p = Some (flat_index g rc).
Proof. exact unpos_fluent. Qed.
Print Assumptions C01_unpos_fluent.

(** ... and every known well id has a position on both devices (the hypothesis above is satisfiable) *)
Theorem C01_position_defined : forall d g s rc, wf_geom g -> d <> BaseDev -> well_index g s = Some rc ->
  exists p, device_position d g s = Ok p.
Proof. exact device_position_defined. Qed.
Print Assumptions C01_position_defined.

(** with pairwise distinct names the label of a labware finds its own rack *)
Theorem C01_find_rack : forall lws k L, NoDup (map lw_name lws) -> nth_error lws k = Some L ->
  find_rack (map rack_of lws) (lw_name L) = Some k.
Proof. exact find_rack_of. Qed.
Print Assumptions C01_find_rack.

(** the initial robot corresponds to the initial labware *)
Theorem C01_initial : forall s, sim s (robot_of (st_lw s)).
Proof. exact sim_robot_of. Qed.
Print Assumptions C01_initial.

(* ------------------------------------------------------------------ one accepted call *)

(** the records appended by an accepted [aspirate], interpreted on a robot that corresponds to the state
    before the call, lead to a robot that corresponds to the state after the call *)
Theorem C01_aspirate : forall s k wells vols label kw s' rb,
  good_state s -> sim s rb -> aspirate s k wells vols label kw = (s', None) ->
  exists new rb', st_wl s' = emit (st_wl s) new /\
    interp false (w_dev (st_wl s)) rb new = Some rb' /\ sim s' rb'.
Proof. exact aspirate_robot. Qed.
Print Assumptions C01_aspirate.

Theorem C01_dispense : forall s k wells vols label comps kw s' rb,
  good_state s -> sim s rb -> dispense s k wells vols label comps kw = (s', None) ->
  exists new rb', st_wl s' = emit (st_wl s) new /\
    interp false (w_dev (st_wl s)) rb new = Some rb' /\ sim s' rb'.
Proof. exact dispense_robot. Qed.
Print Assumptions C01_dispense.

(** one pipetting step of a transfer: A record, D record, tip action *)
Theorem C01_exec_step : forall s ks kd sw dw v ws kw s' rb,
  good_state s -> sim s rb -> exec_step s ks kd sw dw v ws kw = (s', None) ->
  exists new rb', st_wl s' = emit (st_wl s) new /\
    interp false (w_dev (st_wl s)) rb new = Some rb' /\ sim s' rb'.
Proof. exact exec_step_robot. Qed.
Print Assumptions C01_exec_step.

(** a whole transfer, whatever the plan (with or without large-volume splitting, any partitioning) *)
Theorem C01_transfer : forall s ks swells kd dwells vols label ws pb kw s' rb,
  good_state s -> sim s rb -> transfer s ks swells kd dwells vols label ws pb kw = (s', None) ->
  exists new rb', st_wl s' = emit (st_wl s) new /\
    interp false (w_dev (st_wl s)) rb new = Some rb' /\ sim s' rb'.
Proof. exact transfer_robot. Qed.
Print Assumptions C01_transfer.

(** [distribute] on an EvoWorklist: the single R record removes n * v from the source column's real well
    and adds v at every destination position that is not excluded *)
Theorem C01_distribute : forall s ks kd dwells a s' rb,
  good_state s -> sim s rb -> w_dev (st_wl s) = Evo -> dst_positions_distinct s kd dwells ->
  distribute s ks kd dwells a = (s', None) ->
  exists new rb', st_wl s' = emit (st_wl s) new /\ interp false Evo rb new = Some rb' /\ sim s' rb'.
Proof. exact distribute_robot_evo. Qed.
Print Assumptions C01_distribute.

(** The same statement for FluentWorklist,
      forall s ks kd dwells a s' rb, good_state s -> sim s rb -> w_dev (st_wl s) = Fluent ->
        dst_positions_distinct s kd dwells -> distribute s ks kd dwells a = (s', None) ->
        exists new rb', st_wl s' = emit (st_wl s) new /\ interp false Fluent rb new = Some rb' /\ sim s' rb',
    is FALSE of the model (and of the code: known finding F12): the record of a distribute from column 2 of
    a trough with 4 virtual rows names the source positions 5..8, which under the Fluent numbering of a
    trough are not positions of that labware. *)
Theorem C01_distribute_fluent_refuted :
  exists s ks kd dwells a s',
    good_state s /\ w_dev (st_wl s) = Fluent /\ dst_positions_distinct s kd dwells /\
    distribute s ks kd dwells a = (s', None) /\
    map render (w_recs (st_wl s')) = ["R;T4;;;5;8;big;;;3;4;10;W;1;1;0"%string] /\
    interp false Fluent (robot_of (st_lw s)) (w_recs (st_wl s')) = None.
Proof. exact distribute_fluent_refuted. Qed.
Print Assumptions C01_distribute_fluent_refuted.

(** the strongest true variant: a source trough with a single virtual row (both numberings coincide) *)
Theorem C01_distribute_fluent_partial : forall s ks kd dwells a s' rb,
  good_state s -> sim s rb -> w_dev (st_wl s) = Fluent ->
  (forall Ls, nth_error (st_lw s) ks = Some Ls -> g_vrows (lw_geom Ls) = Some 1%nat) ->
  dst_positions_distinct s kd dwells ->
  distribute s ks kd dwells a = (s', None) ->
  exists new rb', st_wl s' = emit (st_wl s) new /\ interp false Fluent rb new = Some rb' /\ sim s' rb'.
Proof. exact distribute_robot_fluent_one_row. Qed.
Print Assumptions C01_distribute_fluent_partial.

(* ------------------------------------------------------------------ whole programs *)

(** every call of the program accepted, worklist initially empty: the file replays, from the initial labware
    contents, to a robot in which every well of every labware holds the tracked volume *)
Theorem C01_run : forall s0 ops,
  good_state s0 -> w_recs (st_wl s0) = [] ->
  forallb wl_op ops = true -> Forall (op_ok s0) ops ->
  Forall (fun e => e = None) (snd (run s0 ops)) ->
  exists rb, interp false (w_dev (st_wl s0)) (robot_of (st_lw s0)) (w_recs (st_wl (fst (run s0 ops)))) = Some rb /\
             sim (fst (run s0 ops)) rb.
Proof. exact run_refines. Qed.
Print Assumptions C01_run.

(** pointwise reading of [sim] *)
Theorem C01_sim_volume : forall lws rs k L r j,
  sim_racks lws rs -> nth_error lws k = Some L -> nth_error rs k = Some r ->
  nth j (rk_vols r) 0 == vol_at L j.
Proof. exact sim_vol. Qed.
Print Assumptions C01_sim_volume.

(* ------------------------------------------------------------------ addressing *)

(** the records of [aspirate]: comment lines, then one A record per positive volume, in order, each naming
    the labware's rack and the device position of its well; when the call fails in the record loop the
    records are a prefix *)
Theorem C01_addressing_aspirate : forall s k wells vols label kw s' e L,
  aspirate s k wells vols label kw = (s', e) -> nth_error (st_lw s) k = Some L ->
  exists ls new pre post, st_wl s' = emit (st_wl s) (map RC ls ++ new) /\ (label = None -> ls = []) /\
    filter (fun wx => xpos (snd wx))
           (zip (flattenF wells) (broadcast (flattenF vols) (length (flattenF wells)))) = (pre ++ post)%list /\
    (e = None -> post = []) /\
    Forall2 (ad_addresses (w_dev (st_wl s)) (lw_name L) (lw_geom L) true) pre new.
Proof. exact aspirate_addressing. Qed.
Print Assumptions C01_addressing_aspirate.

Theorem C01_addressing_dispense : forall s k wells vols label comps kw s' e L,
  dispense s k wells vols label comps kw = (s', e) -> nth_error (st_lw s) k = Some L ->
  exists ls new pre post, st_wl s' = emit (st_wl s) (map RC ls ++ new) /\ (label = None -> ls = []) /\
    filter (fun wx => xpos (snd wx))
           (zip (flattenF wells) (broadcast (flattenF vols) (length (flattenF wells)))) = (pre ++ post)%list /\
    (e = None -> post = []) /\
    Forall2 (ad_addresses (w_dev (st_wl s)) (lw_name L) (lw_geom L) false) pre new.
Proof. exact dispense_addressing. Qed.
Print Assumptions C01_addressing_dispense.

Theorem C01_addressing_exec_step : forall s ks kd sw dw v ws kw s' Ls Ld,
  exec_step s ks kd sw dw v ws kw = (s', None) ->
  nth_error (st_lw s) ks = Some Ls -> nth_error (st_lw s) kd = Some Ld ->
  exists newA newD tiprecs, st_wl s' = emit (st_wl s) (newA ++ newD ++ tiprecs) /\
    forallb quiet tiprecs = true /\
    Forall2 (ad_addresses (w_dev (st_wl s)) (lw_name Ls) (lw_geom Ls) true)
            (filter (fun wx => xpos (snd wx)) [(sw, XQ v)]) newA /\
    Forall2 (ad_addresses (w_dev (st_wl s)) (lw_name Ld) (lw_geom Ld) false)
            (filter (fun wx => xpos (snd wx)) [(dw, XQ v)]) newD.
Proof. exact exec_step_addressing. Qed.
Print Assumptions C01_addressing_exec_step.

(** the R record of [distribute]: source and destination rack, the EVO-style source range
    [1 + vrows * col .. vrows * (col + 1)], and start .. end minus exclusions = exactly the positions of the
    destination wells, ascending *)
Theorem C01_addressing_distribute : forall s ks kd dwells a s' Ls Ld vr,
  distribute s ks kd dwells a = (s', None) -> wf_state s ->
  nth_error (st_lw s) ks = Some Ls -> nth_error (st_lw s) kd = Some Ld -> g_vrows (lw_geom Ls) = Some vr ->
  let col := Z.to_nat (d_source_column a) in
  exists ls f ps, st_wl s' = emit (st_wl s) (map RC ls ++ [RR f]) /\
    r_src_label f = lw_name Ls /\ r_dst_label f = lw_name Ld /\
    r_src_start f = Z.of_nat (1 + vr * col) /\ r_src_end f = Z.of_nat (vr * (col + 1)) /\
    (col < g_cols (lw_geom Ls))%nat /\
    positions_of (w_dev (st_wl s)) (lw_geom Ld) (flattenF dwells) = Ok ps /\
    (forall p, In p (record_dsts f) <-> In p ps) /\ StronglySorted lt (record_dsts f).
Proof. exact distribute_addressing. Qed.
Print Assumptions C01_addressing_distribute.

(* ------------------------------------------------------------------ non-vacuity *)

#[local] Open Scope string_scope.

(** [ex_state d]: a 2 x 2 plate "big" (A01 = 3000, B01 = 100, max 5000) and a trough "T4" with 4 virtual
    rows and 2 columns (500 each); worklist with max_volume 950 and auto_split *)
Example C01_example_state : good_state (ex_state Evo) /\ good_state (ex_state Fluent).
Proof. split; apply ex_state_good; discriminate. Qed.

(** a transfer that is split (2000 > 950: 667 + 667 + 666), a distribute from the trough, an aspirate *)
Definition C01_ex_prog : list op :=
  [OTransfer 0 (A1 ["A01"; "B01"]) 0 (A1 ["A02"; "B02"]) (A1 [2000; 50]%Q) (Some "split") SFlush "auto" kw_default;
   ODistribute 1 0 (A1 ["A02"; "B02"]) (ex_dargs 0 25);
   OAspirate 0 (A1 ["A02"]) (A0 (XQ 5)) None kw_default;
   OCommit].

Example C01_example_hyps :
  forallb wl_op C01_ex_prog = true /\ Forall (op_ok (ex_state Evo)) C01_ex_prog /\
  w_recs (st_wl (ex_state Evo)) = [].
Proof.
  split; [reflexivity|]. split; [|reflexivity].
  repeat constructor.
  intros Ld ps HLd Hps. cbn in HLd. injection HLd as <-. vm_compute in Hps. injection Hps as <-.
  constructor; [intros [C|[]]; discriminate|constructor; [intros []|constructor]].
Qed.

Example C01_example_run :
  let r := run (ex_state Evo) C01_ex_prog in
  snd r = [None; None; None; None] /\
  map render (w_recs (st_wl (fst r))) =
    ["C;split"; "A;big;;;1;;667.00;;;;"; "D;big;;;3;;667.00;;;;"; "F;";
     "A;big;;;2;;50.00;;;;"; "D;big;;;4;;50.00;;;;"; "F;"; "B;";
     "A;big;;;1;;667.00;;;;"; "D;big;;;3;;667.00;;;;"; "F;";
     "A;big;;;1;;666.00;;;;"; "D;big;;;3;;666.00;;;;"; "F;"; "B;";
     "R;T4;;;1;4;big;;;3;4;25;W;1;1;0"; "A;big;;;3;;5.00;;;;"; "B;"] /\
  map lw_vols (st_lw (fst r)) = [[1000; 2020; 50; 75]; [450; 500]]%Q /\
  match interp false Evo (robot_of (st_lw (ex_state Evo))) (w_recs (st_wl (fst r))) with
  | Some rb => map rk_vols (rb_racks rb) = map lw_vols (st_lw (fst r))
  | None => False
  end.
Proof. vm_compute. repeat split; reflexivity. Qed.

(* ------------------------------------------------------------------ composition *)

#[local] Close Scope string_scope.

(** the initial robot also agrees on the compositions *)
Theorem C01_composition_initial : forall s, wf_state s -> cstate s -> csim s (robot_of (st_lw s)).
Proof. exact csim_robot_of. Qed.
Print Assumptions C01_composition_initial.

(** the interpreter's mixing: (V f_k + v g_k) / (V + v) in the addressed well, nothing elsewhere *)
Theorem C01_mix_into : forall r i V v g k j,
  arrays_len (length (rk_vols r)) (rk_comp r) -> (i < length (rk_vols r))%nat -> ~ V + v == 0 ->
  cfrac (mix_into r i V v g) k j ==
  if (j =? i)%nat then (V * cfrac (rk_comp r) k i + v * fget k g) / (V + v) else cfrac (rk_comp r) k j.
Proof. exact mix_into_cfrac. Qed.
Print Assumptions C01_mix_into.

(** the model's mixing ([combine_composition] / [write_composition] in one accepted addition): the same *)
Theorem C01_model_mixing : forall L i v c k j,
  arrays_len (n_wells (lw_geom L)) (lw_comp L) -> (i < n_wells (lw_geom L))%nat ->
  NoDup (map fst (lw_comp L)) -> NoDup (map fst c) ->
  (forall k0, 0 <= cfrac (lw_comp L) k0 i) -> ~ vol_at L i + v == 0 ->
  cfrac (lw_comp (add_one L i v (Some c))) k j ==
  if (j =? i)%nat then (vol_at L i * cfrac (lw_comp L) k i + v * fget k c) / (vol_at L i + v)
  else cfrac (lw_comp L) k j.
Proof. exact add_one_cfrac. Qed.
Print Assumptions C01_model_mixing.

(** one pipetting step of a positive volume: volumes AND compositions of the replayed robot agree with the
    tracked state (checked interpreter; the unchecked one follows by [C03_checked_implies_unchecked]) *)
Theorem C01_composition_exec_step : forall s ks kd sw dw v ws kw s' rb,
  good_state s -> cstate s -> csim s rb -> 0 < v -> exec_step s ks kd sw dw v ws kw = (s', None) ->
  exists new rb', st_wl s' = emit (st_wl s) new /\
    interp true (w_dev (st_wl s)) rb new = Some rb' /\ csim s' rb' /\ cstate s'.
Proof. exact exec_step_csim. Qed.
Print Assumptions C01_composition_exec_step.

(** every step of a plan has a positive volume, so a whole transfer *)
Theorem C01_composition_transfer : forall s ks swells kd dwells vols label ws pb kw s' rb,
  good_state s -> cstate s -> csim s rb ->
  transfer s ks swells kd dwells vols label ws pb kw = (s', None) ->
  exists new rb', st_wl s' = emit (st_wl s) new /\
    interp true (w_dev (st_wl s)) rb new = Some rb' /\ csim s' rb' /\ cstate s'.
Proof. exact transfer_csim. Qed.
Print Assumptions C01_composition_transfer.

(** programs of transfers (and record-only calls), every call accepted *)
Theorem C01_composition_run : forall s0 ops,
  good_state s0 -> cstate s0 -> w_recs (st_wl s0) = [] -> forallb tr_op ops = true ->
  Forall (fun e => e = None) (snd (run s0 ops)) ->
  exists rb, interp false (w_dev (st_wl s0)) (robot_of (st_lw s0)) (w_recs (st_wl (fst (run s0 ops)))) = Some rb /\
             csim (fst (run s0 ops)) rb.
Proof. exact run_composition. Qed.
Print Assumptions C01_composition_run.

(** pointwise reading of [csim] *)
Theorem C01_composition_pointwise : forall s rb k0 L r k j, csim s rb ->
  nth_error (st_lw s) k0 = Some L -> nth_error (rb_racks rb) k0 = Some r ->
  cfrac (rk_comp r) k j == cfrac (lw_comp L) k j.
Proof. exact csim_fraction. Qed.
Print Assumptions C01_composition_pointwise.

Example C01_example_cstate : cstate (ex_state Evo).
Proof. apply ex_state_cstate. Qed.

(** all fractions of all named components agree, as a computation *)
Definition C01_fractions_agree (L : labware) (r : rack) : bool :=
  forallb (fun k => forallb (fun j => Qeq_bool (cfrac (rk_comp r) k j) (cfrac (lw_comp L) k j))
                            (seq 0 (length (lw_vols L))))
          (map fst (lw_comp L) ++ map fst (rk_comp r)).

Example C01_example_composition :
  let r := run (ex_state Evo)
    [OTransfer 0 (A1 ["A01"; "B01"]%string) 0 (A1 ["A02"; "A02"]%string) (A1 [2000; 50]) None SFlush "auto"%string kw_default;
     OTransfer 0 (A1 ["A02"]%string) 1 (A1 ["A01"]%string) (A1 [100]) None SFlush "auto"%string kw_default] in
  snd r = [None; None] /\
  map lw_vols (st_lw (fst r)) = [[1000; 1950; 50; 0]; [600; 500]] /\
  match interp false Evo (robot_of (st_lw (ex_state Evo))) (w_recs (st_wl (fst r))) with
  | Some rb => forallb (fun p => C01_fractions_agree (fst p) (snd p)) (combine (st_lw (fst r)) (rb_racks rb)) = true /\
               map (fun r0 => Qred (cfrac (rk_comp r0) "big.A01"%string 0%nat)) (rb_racks rb) = [1; 20 # 123]
  | None => False
  end.
Proof. vm_compute. repeat split; reflexivity. Qed.

(** C01_composition for [distribute] is PROVED in the last section of this file ("composition after distribute":
    [C01_composition_distribute], [C01_composition_run_distribute]).  The R record dispenses in ascending
    position order while the tracking adds in the order of the destination ids, and several positions of a
    destination trough address the same real well; the closed form (V f_k + n v g_k) / (V + n v) after n
    additions of the same liquid to a well ([C01_closed_step]) makes the result independent of the order. *)


(* ================================================================== the rendered worklist (C01_rendered) *)

(** The robot executes a TEXT file.  Definitions (Proofs/RefinementTextProofs.v):
    [srec_of_prec]: a record parsed by the independent parser of Spec/Gwl.v as a structured record, the A / D
      volume being hundredths / 100, the R volume the int written or (a float) integer part + fraction digits;
    [read_line l] = [parse_record l] then [srec_of_prec]; [read_lines]: all lines or nothing;
    [interp_text c d rb lines] = [interp c d rb] of [read_lines lines];
    [rec_valid r]: the hypotheses of C09_roundtrip_AD / C09_roundtrip_R / C09_roundtrip_simple for [r]
      (no separator in a text field, non-negative position / volume / counts, wash scheme 1..4, no script command);
    [cents_ok r]: the volume of an A / D record is a multiple of 1/100; [r_int r]: the volume of an R record is an int;
    [r_num r]: the volume of an R record is an int or a float [PyF q] with [0 <= q] and the reduced denominator of
      [q] a power of two (every Python float is such a dyadic rational); [r_int r -> r_num r];
    [srec_near e r r']: [r'] is [r] up to [e] in the volume of an A / D record; for an R record all fields but the
      volume agree and the volumes have the same value ([pynum_q v == pynum_q (r_volume f)]; an int stays that int);
    [rack_eqv r r']: same name, geometry, limits, [Forall2 Qeq] volumes (= [rack_sim] between two racks);
    [hit_ad d names geoms label p k j]: label finds rack number [k] and position [p] is real well [j] of it;
    [hits d names geoms recs k j]: number of A / D records of [recs] that address real well [j] of rack [k];
    [racks_near E rs rs']: same names and geometries, same limits, |volume' - volume| <= E k j for well j of rack k;
    [op_text_ok o]: the volume of a distribute call is an int or a float [RVFloat (XQ q)] with [q] dyadic (REVIEW2
      N1: the float case used to be excluded).  A float volume is written as its exact terminating decimal
      expansion ([pyrepr_float]) and [pynum_of_text] reads it back to a number of the same value, so the replay
      of the text is exact.  CAVEAT (see Props/C09.v, "float printer"): Python writes the SHORTEST round-trip
      notation; the two texts coincide when the exact expansion has at most 15 significant digits (the harness
      grid k/2^e, e <= 10); for e.g. 0.1 the library's text "0.1" denotes 1/10, which differs from the float by
      5.6e-18, and these theorems are then about the model's text only.
      Nothing is asked of the DiTi index of set_diti or of diti_reuse / multi_disp of
      distribute any more: the methods reject negative values (fixed in /repo by commit 26768d9, finding F21),
      so an accepted call has non-negative ones and a rejected call appends nothing. *)

(** C01_rendered_record, A / D: the text of an A or D record that [aspirate_well] / [dispense_well] can emit is
    read back as a record addressing the same rack label and position, all other text fields the same, with a
    volume within 1/200 of the requested one, equal to it when the requested volume has at most two decimals *)
Theorem C01_rendered_record_AD : forall f : adfields,
  rc_ad_nosep f -> (0 <= ad_position f)%Z -> 0 <= ad_volume f ->
  exists f', read_line (render (RA f)) = Some (RA f') /\ read_line (render (RD f)) = Some (RD f') /\
    ad_rack_label f' = ad_rack_label f /\ ad_position f' = ad_position f /\
    Qabs (ad_volume f' - ad_volume f) <= 1 # 200 /\
    (forall z, ad_volume f * 100 == inject_Z z -> ad_volume f' == ad_volume f) /\
    ad_rack_id f' = ad_rack_id f /\ ad_rack_type f' = ad_rack_type f /\ ad_tube_id f' = ad_tube_id f /\
    ad_liquid_class f' = ad_liquid_class f /\ ad_tip f' = ad_tip f /\
    ad_forced_rack_type f' = ad_forced_rack_type f.
Proof. exact rendered_AD. Qed.
Print Assumptions C01_rendered_record_AD.

(** [prepare_ad] guarantees these hypotheses *)
Theorem C01_rendered_record_prepared : forall a m f, prepare_ad a m = Ok f ->
  rec_valid (RA f) /\ rec_valid (RD f).
Proof. exact prepare_ad_valid. Qed.
Print Assumptions C01_rendered_record_prepared.

(** C01_rendered_record, R: labels, ids, types, ranges, exclusions, liquid class, DiTi reuse, multi-dispense and
    direction are read back as they are; the volume exactly when it is an int *)
Theorem C01_rendered_record_R : forall f : rfields, rc_r_nosep f -> rc_r_nonneg f ->
  match r_volume f with PyI z => (0 <= z)%Z | PyF _ => True end ->
  exists v, read_line (render (RR f)) = Some (RR (set_r_volume f v)) /\
    (forall z, r_volume f = PyI z -> v = PyI z /\ set_r_volume f v = f).
Proof. exact rendered_R. Qed.
Print Assumptions C01_rendered_record_R.

(** ... and when it is a float (non-negative dyadic rational) the number read back has the same VALUE: the
    model prints the exact terminating expansion, [pynum_of_text] sums its digits (printer caveat: header) *)
Theorem C01_rendered_record_R_float : forall (f : rfields) q k, rc_r_nosep f -> rc_r_nonneg f ->
  r_volume f = PyF q -> 0 <= q -> Npos (Qden (Qred q)) = (2 ^ N.of_nat k)%N ->
  exists v, read_line (render (RR f)) = Some (RR (set_r_volume f v)) /\ pynum_q v == q.
Proof. exact rendered_R_float. Qed.
Print Assumptions C01_rendered_record_R_float.

Theorem C01_r_int_num : forall r, r_int r -> r_num r.
Proof. exact r_int_num. Qed.
Print Assumptions C01_r_int_num.

(** C01_rendered_record, W / WD / F / B / C / S: read back as themselves *)
Theorem C01_rendered_record_simple :
  read_line (render (RW None)) = Some (RW None) /\
  (forall n, (1 <= n <= 4)%nat -> read_line (render (RW (Some n))) = Some (RW (Some n))) /\
  read_line (render RWD) = Some RWD /\ read_line (render RF) = Some RF /\ read_line (render RB) = Some RB /\
  (forall t, rc_nosep t -> read_line (render (RC t)) = Some (RC t)) /\
  (forall i, (0 <= i)%Z -> read_line (render (RS i)) = Some (RS i)).
Proof. exact rendered_simple. Qed.
Print Assumptions C01_rendered_record_simple.

(** C01_rendered_exact, the records: with at most two decimals in every A / D volume and int R volumes the
    file is read back as the record list, up to [==] on the A / D volumes *)
Theorem C01_rendered_records_exact : forall recs,
  Forall rec_valid recs -> Forall r_int recs -> Forall cents_ok recs ->
  exists recs', read_lines (map render recs) = Some recs' /\
    Forall2 (fun r r' => match r with
                         | RA f => exists f', r' = RA f' /\ ad_rack_label f' = ad_rack_label f /\
                                     ad_position f' = ad_position f /\ ad_volume f' == ad_volume f
                         | RD f => exists f', r' = RD f' /\ ad_rack_label f' = ad_rack_label f /\
                                     ad_position f' = ad_position f /\ ad_volume f' == ad_volume f
                         | _ => r' = r
                         end) recs recs'.
Proof. exact rendered_records_exact. Qed.
Print Assumptions C01_rendered_records_exact.

(** C01_rendered_exact: ... and executing the file gives the robot that executing the records gives
    (R volumes: ints or dyadic floats, [r_num]) *)
Theorem C01_rendered_exact : forall d rb recs rb1,
  Forall rec_valid recs -> Forall r_num recs -> Forall cents_ok recs ->
  interp false d rb recs = Some rb1 ->
  exists rb1', interp_text false d rb (map render recs) = Some rb1' /\
               Forall2 rack_eqv (rb_racks rb1) (rb_racks rb1').
Proof. exact rendered_exact. Qed.
Print Assumptions C01_rendered_exact.

(** C01_rendered_bound: without the two-decimals hypothesis every well of the robot that executed the file is
    within n / 200 of the robot that executed the records, n = number of A / D records addressing the well *)
Theorem C01_rendered_bound : forall d rb recs rb1,
  Forall rec_valid recs -> Forall r_num recs ->
  interp false d rb recs = Some rb1 ->
  exists rb1', interp_text false d rb (map render recs) = Some rb1' /\
    racks_near (fun k j => inject_Z (Z.of_nat
                  (hits d (map rk_name (rb_racks rb)) (map rk_geom (rb_racks rb)) recs k j)) / 200)
               (rb_racks rb1) (rb_racks rb1').
Proof. exact rendered_bound. Qed.
Print Assumptions C01_rendered_bound.

(** the general fact behind both: records that are [e]-close replayed on robots that are [E]-close *)
Theorem C01_interp_near : forall e d, 0 <= e -> forall recs recs', Forall2 (srec_near e) recs recs' ->
  forall E rb rb' rb1, racks_near E (rb_racks rb) (rb_racks rb') -> interp false d rb recs = Some rb1 ->
  exists rb1', interp false d rb' recs' = Some rb1' /\
    racks_near (fun k j => E k j + e * inject_Z (Z.of_nat
                  (hits d (map rk_name (rb_racks rb)) (map rk_geom (rb_racks rb)) recs k j)))
               (rb_racks rb1) (rb_racks rb1').
Proof. exact interp_near. Qed.
Print Assumptions C01_interp_near.

(** the records of a program of worklist calls are valid; the R records have int or dyadic float volumes *)
Theorem C01_run_records_valid : forall s ops,
  w_recs (st_wl s) = [] -> forallb wl_op ops = true -> Forall op_text_ok ops ->
  Forall rec_valid (w_recs (st_wl (fst (run s ops)))) /\ Forall r_num (w_recs (st_wl (fst (run s ops)))).
Proof. exact run_records_valid. Qed.
Print Assumptions C01_run_records_valid.

(** with C01_run: executing the TEXT of the worklist of a program reproduces the tracked volumes exactly
    whenever all A / D volumes have at most two decimals (a distribute may have an int or a float volume,
    [op_text_ok]: its R record is not rounded and reads back to the same value) ... *)
Theorem C01_run_text_exact : forall s0 ops,
  good_state s0 -> w_recs (st_wl s0) = [] ->
  forallb wl_op ops = true -> Forall (op_ok s0) ops -> Forall op_text_ok ops ->
  Forall (fun e => e = None) (snd (run s0 ops)) ->
  Forall cents_ok (w_recs (st_wl (fst (run s0 ops)))) ->
  exists rb, interp_text false (w_dev (st_wl s0)) (robot_of (st_lw s0))
               (map render (w_recs (st_wl (fst (run s0 ops))))) = Some rb /\
             sim (fst (run s0 ops)) rb.
Proof. exact run_file_exact. Qed.
Print Assumptions C01_run_text_exact.

(** ... and in general within n / 200 per well *)
Theorem C01_run_text_bound : forall s0 ops,
  good_state s0 -> w_recs (st_wl s0) = [] ->
  forallb wl_op ops = true -> Forall (op_ok s0) ops -> Forall op_text_ok ops ->
  Forall (fun e => e = None) (snd (run s0 ops)) ->
  exists rb, interp_text false (w_dev (st_wl s0)) (robot_of (st_lw s0))
               (map render (w_recs (st_wl (fst (run s0 ops))))) = Some rb /\
    forall k L r j, nth_error (st_lw (fst (run s0 ops))) k = Some L -> nth_error (rb_racks rb) k = Some r ->
      rk_name r = lw_name L /\ rk_geom r = lw_geom L /\
      Qabs (nth j (rk_vols r) 0 - vol_at L j) <=
      inject_Z (Z.of_nat (hits (w_dev (st_wl s0)) (map lw_name (st_lw s0)) (map lw_geom (st_lw s0))
                               (w_recs (st_wl (fst (run s0 ops)))) k j)) / 200.
Proof. exact run_file_bound. Qed.
Print Assumptions C01_run_text_bound.

(** The CHECKED replay ([interp true]: a step that takes a well below min_volume or above max_volume is
    refused).  Every call accepted: the records replay within the limits to the tracked volumes (the
    fully-accepted case of C03_prefix_safe, with the resulting robot; [dst_positions_distinct] is part of
    [op_ok]) ... *)
Theorem C01_run_checked : forall s0 ops,
  good_state s0 -> w_recs (st_wl s0) = [] ->
  forallb wl_op ops = true -> Forall (op_ok s0) ops ->
  Forall (fun e => e = None) (snd (run s0 ops)) ->
  exists rb, interp true (w_dev (st_wl s0)) (robot_of (st_lw s0)) (w_recs (st_wl (fst (run s0 ops)))) = Some rb /\
             sim (fst (run s0 ops)) rb.
Proof. exact run_refines_checked. Qed.
Print Assumptions C01_run_checked.

(** ... executing the text with the checks gives the robot that executing the records with the checks gives
    (two decimals in A / D volumes, int or dyadic float R volumes) ... *)
Theorem C01_rendered_exact_checked : forall d rb recs rb1,
  Forall rec_valid recs -> Forall r_num recs -> Forall cents_ok recs ->
  interp true d rb recs = Some rb1 ->
  exists rb1', interp_text true d rb (map render recs) = Some rb1' /\
               Forall2 rack_eqv (rb_racks rb1) (rb_racks rb1').
Proof. exact rendered_exact_checked. Qed.
Print Assumptions C01_rendered_exact_checked.

(** ... hence, under the hypotheses of C01_run_text_exact, the TEXT of the worklist replays within the limits
    to the tracked volumes; the unchecked replay is a consequence *)
Theorem C01_run_text_checked : forall s0 ops,
  good_state s0 -> w_recs (st_wl s0) = [] ->
  forallb wl_op ops = true -> Forall (op_ok s0) ops -> Forall op_text_ok ops ->
  Forall (fun e => e = None) (snd (run s0 ops)) ->
  Forall cents_ok (w_recs (st_wl (fst (run s0 ops)))) ->
  exists rb, interp_text true (w_dev (st_wl s0)) (robot_of (st_lw s0))
               (map render (w_recs (st_wl (fst (run s0 ops))))) = Some rb /\
             sim (fst (run s0 ops)) rb.
Proof. exact run_file_exact_checked. Qed.
Print Assumptions C01_run_text_checked.

Theorem C01_text_checked_implies_unchecked : forall d rb lines rb',
  interp_text true d rb lines = Some rb' -> interp_text false d rb lines = Some rb'.
Proof. exact interp_text_unchecked. Qed.
Print Assumptions C01_text_checked_implies_unchecked.

(** [cents_ok] from the INPUTS (REVIEW2 N1).  The hypothesis [Forall cents_ok (records)] of C01_run_text_exact /
    _checked is about the OUTPUT; here is a sufficient condition on the program.
    [is_cents q]: [q] is a multiple of 1/100; [x_cents x]: the same for a finite API number;
    [vol_cents w v] (a requested transfer volume): [v] is a multiple of 1/100 and it is not split (auto_split off,
      or [v <= max_volume]) or max_volume is a multiple of 1/100 too.  The last case covers EVERY split:
      [partition_volume v m] consists of n - 1 steps of size [s] and a last step [v - (n - 1) s], where [s] is
      the integer [ceil (v / n)] or [m] itself (C06, Proofs/PartitionProofs.v); with [m] not a multiple of
      1/100 the steps need not be ([C01_example_cents_needed]: 1 uL with max_volume 2/3 gives 2/3 + 1/3);
    [op_cents w o]: every requested volume of aspirate / dispense / aspirate_well / dispense_well is [x_cents],
      every requested volume of a transfer is [vol_cents w]; nothing is asked of the other operations
      (distribute writes an R record, the script commands of evo_aspirate / evo_dispense are not A / D records). *)
Definition is_cents (q : Q) : Prop := exists z : Z, q * 100 == inject_Z z.
Definition x_cents (x : xnum) : Prop := match x with XQ v => is_cents v | _ => True end.
Definition vol_cents (w : wstate) (v : Q) : Prop :=
  is_cents v /\ (w_autosplit w = false \/ v <= w_max w \/ is_cents (w_max w)).
Definition op_cents (w : wstate) (o : op) : Prop :=
  match o with
  | OAspirate _ _ vols _ _ => Forall x_cents (flattenF vols)
  | ODispense _ _ vols _ _ _ => Forall x_cents (flattenF vols)
  | OTransfer _ _ _ _ vols _ _ _ _ => Forall (vol_cents w) (flattenF vols)
  | OAspWell a | ODispWell a => match x_volume a with PV x => x_cents x | PVBad => True end
  | _ => True
  end.

(** the steps of a split volume are multiples of 1/100 when the volume is and (it is not split or) the
    maximum is *)
Theorem C01_partition_cents : forall v m,
  is_cents v -> v <= m \/ is_cents m -> Forall is_cents (partition_volume v m).
Proof. exact partition_cents. Qed.
Print Assumptions C01_partition_cents.

(** any program ([Program.op]: all operations, accepted or not; [w_max] and [w_autosplit] never change):
    if the inputs are multiples of 1/100 so are all A / D volumes of the worklist *)
Theorem C01_cents_from_inputs : forall s0 ops,
  Forall cents_ok (w_recs (st_wl s0)) -> Forall (op_cents (st_wl s0)) ops ->
  Forall cents_ok (w_recs (st_wl (fst (run s0 ops)))).
Proof. exact cents_from_inputs. Qed.
Print Assumptions C01_cents_from_inputs.

(** C01_run_text_exact / C01_run_text_checked with hypotheses that speak only about the program *)
Theorem C01_run_text_exact_inputs : forall s0 ops,
  good_state s0 -> w_recs (st_wl s0) = [] ->
  forallb wl_op ops = true -> Forall (op_ok s0) ops -> Forall op_text_ok ops ->
  Forall (op_cents (st_wl s0)) ops ->
  Forall (fun e => e = None) (snd (run s0 ops)) ->
  exists rb, interp_text false (w_dev (st_wl s0)) (robot_of (st_lw s0))
               (map render (w_recs (st_wl (fst (run s0 ops))))) = Some rb /\
             sim (fst (run s0 ops)) rb.
Proof. exact run_file_exact_inputs. Qed.
Print Assumptions C01_run_text_exact_inputs.

Theorem C01_run_text_checked_inputs : forall s0 ops,
  good_state s0 -> w_recs (st_wl s0) = [] ->
  forallb wl_op ops = true -> Forall (op_ok s0) ops -> Forall op_text_ok ops ->
  Forall (op_cents (st_wl s0)) ops ->
  Forall (fun e => e = None) (snd (run s0 ops)) ->
  exists rb, interp_text true (w_dev (st_wl s0)) (robot_of (st_lw s0))
               (map render (w_recs (st_wl (fst (run s0 ops))))) = Some rb /\
             sim (fst (run s0 ops)) rb.
Proof. exact run_file_exact_checked_inputs. Qed.
Print Assumptions C01_run_text_checked_inputs.

(** non-vacuity: the example program above; its file, executed, gives the tracked volumes *)
Example C01_example_text_hyps :
  Forall op_text_ok C01_ex_prog /\
  Forall cents_ok (w_recs (st_wl (fst (run (ex_state Evo) C01_ex_prog)))).
Proof.
  split.
  - unfold C01_ex_prog. repeat (apply Forall_cons || apply Forall_nil); try exact I.
    cbn. left. eexists. reflexivity.
  - set (recs := w_recs _). vm_compute in recs. subst recs.
    repeat (apply Forall_cons || apply Forall_nil); cbn [cents_ok ad_volume]; try exact I;
      match goal with |- exists z, ?v * 100 == _ => exists (Qnum (Qred (v * 100))); vm_compute; reflexivity end.
Qed.

Example C01_example_text_run :
  let r := run (ex_state Evo) C01_ex_prog in
  match interp_text false Evo (robot_of (st_lw (ex_state Evo))) (map render (w_recs (st_wl (fst r)))) with
  | Some rb => map (fun r0 => map Qred (rk_vols r0)) (rb_racks rb) = [[1000; 2020; 50; 75]; [450; 500]]
  | None => False
  end.
Proof. vm_compute. reflexivity. Qed.

(** An accepted program on a FluentWorklist ([ex_state Fluent]: trough positions are 1 + column): a transfer
    from the trough (two virtual rows of column 1, one of column 2) to the plate with a label and wash scheme
    2, a stand-alone dispense with a 2-D well argument (read column-major), a transfer of 1900 uL that is
    split into 950 + 950.  All hypotheses of C01_run, C01_run_text_exact and C01_run_text_checked hold ... *)
Definition C01_ex_prog_fluent : list op :=
  [OTransfer 1 (A1 ["A01"; "C01"; "B02"]%string) 0 (A1 ["A02"; "B02"; "B01"]%string) (A1 [40; 125 # 10; 99 # 2])
             (Some "source"%string) (SInt 2) "auto"%string kw_default;
   ODispense 0 (A2 [["A01"; "A02"]; ["B01"; "B02"]]%string) (A0 (XQ (7 # 2))) None None kw_default;
   OTransfer 0 (A1 ["A01"%string]) 0 (A1 ["B02"%string]) (A1 [1900]) None SFlush "auto"%string kw_default;
   OCommit].

Example C01_example_fluent_hyps :
  good_state (ex_state Fluent) /\ w_recs (st_wl (ex_state Fluent)) = [] /\
  forallb wl_op C01_ex_prog_fluent = true /\ Forall (op_ok (ex_state Fluent)) C01_ex_prog_fluent /\
  Forall op_text_ok C01_ex_prog_fluent /\
  Forall (fun e => e = None) (snd (run (ex_state Fluent) C01_ex_prog_fluent)) /\
  Forall cents_ok (w_recs (st_wl (fst (run (ex_state Fluent) C01_ex_prog_fluent)))).
Proof. exact fluent_prog_hyps. Qed.

(** ... so the three theorems apply to it (instances, every hypothesis discharged by the Example above) ... *)
Example C01_example_fluent_instances :
  let s0 := ex_state Fluent in
  let recs := w_recs (st_wl (fst (run s0 C01_ex_prog_fluent))) in
  (exists rb, interp false Fluent (robot_of (st_lw s0)) recs = Some rb /\ sim (fst (run s0 C01_ex_prog_fluent)) rb) /\
  (exists rb, interp_text false Fluent (robot_of (st_lw s0)) (map render recs) = Some rb /\
              sim (fst (run s0 C01_ex_prog_fluent)) rb) /\
  (exists rb, interp_text true Fluent (robot_of (st_lw s0)) (map render recs) = Some rb /\
              sim (fst (run s0 C01_ex_prog_fluent)) rb).
Proof.
  destruct C01_example_fluent_hyps as (H1 & H2 & H3 & H4 & H5 & H6 & H7).
  split; [exact (C01_run _ _ H1 H2 H3 H4 H6)|].
  split; [exact (C01_run_text_exact _ _ H1 H2 H3 H4 H5 H6 H7)|exact (C01_run_text_checked _ _ H1 H2 H3 H4 H5 H6 H7)].
Qed.

(** ... and, as a computation: nothing refused, 22 records, the file replayed with the limit checks gives the
    tracked volumes *)
Example C01_example_fluent_run :
  let r := run (ex_state Fluent) C01_ex_prog_fluent in
  snd r = [None; None; None; None] /\
  map render (w_recs (st_wl (fst r))) =
    ["C;source"; "A;T4;;;2;;49.50;;;;"; "D;big;;;2;;49.50;;;;"; "W2;";
     "A;T4;;;1;;40.00;;;;"; "D;big;;;3;;40.00;;;;"; "W2;";
     "A;T4;;;1;;12.50;;;;"; "D;big;;;4;;12.50;;;;"; "W2;";
     "D;big;;;1;;3.50;;;;"; "D;big;;;2;;3.50;;;;"; "D;big;;;3;;3.50;;;;"; "D;big;;;4;;3.50;;;;";
     "A;big;;;1;;950.00;;;;"; "D;big;;;4;;950.00;;;;"; "F;";
     "A;big;;;1;;950.00;;;;"; "D;big;;;4;;950.00;;;;"; "F;"; "B;"; "B;"]%string /\
  map lw_vols (st_lw (fst r)) = [[2207 # 2; 87 # 2; 153; 1916]; [895 # 2; 901 # 2]] /\
  match interp_text true Fluent (robot_of (st_lw (ex_state Fluent))) (map render (w_recs (st_wl (fst r)))) with
  | Some rb => map (fun r0 => map Qred (rk_vols r0)) (rb_racks rb) = map lw_vols (st_lw (fst r))
  | None => False
  end.
Proof. vm_compute. repeat split; reflexivity. Qed.

(** FLOAT distribute volumes (REVIEW2 N1): a transfer, a distribute of the float 12.5 to two plate wells, a
    distribute of the float 2^-10 to one well.  All hypotheses of C01_run_text_exact / _checked hold ... *)
Definition C01_ex_prog_float : list op :=
  [OTransfer 0 (A1 ["A01"%string]) 0 (A1 ["A02"%string]) (A1 [100]) None SFlush "auto"%string kw_default;
   ODistribute 1 0 (A1 ["A02"; "B02"]%string) (ex_dargs_f 0 (25 # 2));
   ODistribute 1 0 (A1 ["B01"%string]) (ex_dargs_f 1 (1 # 1024));
   OCommit].

Example C01_example_float_hyps :
  good_state (ex_state Evo) /\ w_recs (st_wl (ex_state Evo)) = [] /\
  forallb wl_op C01_ex_prog_float = true /\ Forall (op_ok (ex_state Evo)) C01_ex_prog_float /\
  Forall op_text_ok C01_ex_prog_float /\
  Forall (fun e => e = None) (snd (run (ex_state Evo) C01_ex_prog_float)) /\
  Forall cents_ok (w_recs (st_wl (fst (run (ex_state Evo) C01_ex_prog_float)))).
Proof. exact float_prog_hyps. Qed.

(** ... and, as a computation: the R records carry "12.5" and "0.0009765625" (never rounded to two decimals);
    the file, replayed with the limit checks, gives the tracked volumes exactly *)
Example C01_example_float_run :
  let r := run (ex_state Evo) C01_ex_prog_float in
  snd r = [None; None; None; None] /\
  map render (w_recs (st_wl (fst r))) =
    ["A;big;;;1;;100.00;;;;"; "D;big;;;3;;100.00;;;;"; "F;";
     "R;T4;;;1;4;big;;;3;4;12.5;W;1;1;0"; "R;T4;;;5;8;big;;;2;2;0.0009765625;W;1;1;0"; "B;"]%string /\
  map lw_vols (st_lw (fst r)) = [[2900; 225 # 2; 102401 # 1024; 25 # 2]; [475; 511999 # 1024]] /\
  match interp_text true Evo (robot_of (st_lw (ex_state Evo))) (map render (w_recs (st_wl (fst r)))) with
  | Some rb => map (fun r0 => map Qred (rk_vols r0)) (rb_racks rb) = map lw_vols (st_lw (fst r))
  | None => False
  end.
Proof. vm_compute. repeat split; reflexivity. Qed.

(** a volume with three decimals: 12.345 is written as 12.34; the robot that executes the file is 1/200 off in
    the two wells, each addressed by one record *)
Definition C01_ex_prog3 : list op :=
  [OTransfer 0 (A1 ["A01"%string]) 0 (A1 ["A02"%string]) (A1 [12345 # 1000]) None SFlush "auto"%string kw_default].

Example C01_example_text_bound :
  let r := run (ex_state Evo) C01_ex_prog3 in
  snd r = [None] /\
  map render (w_recs (st_wl (fst r))) = ["A;big;;;1;;12.34;;;;"; "D;big;;;3;;12.34;;;;"; "F;"]%string /\
  map lw_vols (st_lw (fst r)) = [[597531 # 200; 2469 # 200; 100; 0]; [500; 500]] /\
  match interp_text false Evo (robot_of (st_lw (ex_state Evo))) (map render (w_recs (st_wl (fst r)))) with
  | Some rb => map (fun r0 => map Qred (rk_vols r0)) (rb_racks rb) = [[149383 # 50; 617 # 50; 100; 0]; [500; 500]]
  | None => False
  end /\
  map (fun j => hits Evo (map lw_name (st_lw (ex_state Evo))) (map lw_geom (st_lw (ex_state Evo)))
                     (w_recs (st_wl (fst r))) 0 j) [0; 1; 2; 3]%nat = [1; 1; 0; 0]%nat.
Proof. vm_compute. repeat split; reflexivity. Qed.

(** the input condition holds of the three accepted example programs - C01_ex_prog splits 2000 into 667 + 667 + 666
    and C01_ex_prog_fluent 1900 into 950 + 950, max_volume 950 being a multiple of 1/100 - so
    C01_run_text_exact_inputs / _checked_inputs apply to them without looking at the records; it fails for
    C01_ex_prog3 (12.345), whose file is 1/200 off (C01_example_text_bound) *)
Example C01_example_cents_hyps :
  Forall (op_cents (st_wl (ex_state Evo))) C01_ex_prog /\
  Forall (op_cents (st_wl (ex_state Fluent))) C01_ex_prog_fluent /\
  Forall (op_cents (st_wl (ex_state Evo))) C01_ex_prog_float /\
  ~ Forall (op_cents (st_wl (ex_state Evo))) C01_ex_prog3.
Proof. exact cents_example_hyps. Qed.

Example C01_example_cents_instance :
  let s0 := ex_state Fluent in
  exists rb, interp_text true Fluent (robot_of (st_lw s0))
               (map render (w_recs (st_wl (fst (run s0 C01_ex_prog_fluent))))) = Some rb /\
             sim (fst (run s0 C01_ex_prog_fluent)) rb.
Proof.
  destruct C01_example_fluent_hyps as (H1 & H2 & H3 & H4 & H5 & H6 & _).
  exact (C01_run_text_checked_inputs _ _ H1 H2 H3 H4 H5 (proj1 (proj2 C01_example_cents_hyps)) H6).
Qed.

(** the condition on max_volume is needed: with max_volume 2/3 the volume 1 is split into 2/3 + 1/3 *)
Example C01_example_cents_needed :
  partition_volume 1 (2 # 3) = [2 # 3; 1 # 3] /\ ~ is_cents (2 # 3) /\ ~ is_cents (1 # 3).
Proof. exact partition_not_cents. Qed.

(* ================================================================== composition after distribute *)

(** Definitions (Proofs/RefinementTextProofs.v): [closed V f v g n]: [f] for [n = 0], otherwise
    (V f + n v g) / (V + n v) — the fraction after [n] additions of volume [v] with fraction [g] to a well that
    held [V] with fraction [f]; [cnt j l]: occurrences of [j] in [l];
    [closedg V f v g n] = [f] if [v == 0], [closed V f v g n] otherwise;
    [trd_op o]: transfer, distribute or a record-only call. *)

(** the closed form is what one more addition of the same liquid gives: independent of the order of the
    additions to different wells, which is all the R record and the tracking differ in *)
Theorem C01_closed_step : forall V f v g n, 0 <= V -> 0 < v ->
  closed (V + v) ((V * f + v * g) / (V + v)) v g n == closed V f v g (S n).
Proof. exact closed_step. Qed.
Print Assumptions C01_closed_step.

(** the tracking: [add_loop] over wells with indices [idxs] (in the order given), the same volume and liquid *)
Theorem C01_composition_add_many : forall v c, 0 < v -> NoDup (map fst c) -> (forall k, 0 <= fget k c) ->
  forall L items L' e, add_run L items L' e -> e = None ->
  Forall (fun it : aitem => snd (fst it) = XQ v /\ snd it = Some c) items ->
  wf_shape L -> (forall j, 0 <= vol_at L j) -> cinv L ->
  exists idxs, events_of L (map fst items) = Some (evs_of v idxs) /\ cinv L' /\
    forall k j, cfrac (lw_comp L') k j ==
                closed (vol_at L j) (cfrac (lw_comp L) k j) v (fget k c) (cnt j idxs).
Proof. exact add_run_cfrac. Qed.
Print Assumptions C01_composition_add_many.

(** the robot: [dispense_all] with a loaded tip over positions with indices [idxs] (ascending positions) *)
Theorem C01_composition_dispense_all : forall c d label v g k, 0 < v -> NoDup (map fst g) ->
  forall ps idxs rb r rb',
  find_rack (rb_racks rb) label = Some k -> nth_error (rb_racks rb) k = Some r -> rb_tip rb = Some g ->
  Forall2 (fun p i => unpos d (rk_geom r) p = Some i /\ (i < length (rk_vols r))%nat) ps idxs ->
  arrays_len (length (rk_vols r)) (rk_comp r) -> NoDup (map fst (rk_comp r)) ->
  (forall j, 0 <= nth j (rk_vols r) 0) ->
  dispense_all c d rb label ps v = Some rb' ->
  exists r', nth_error (rb_racks rb') k = Some r' /\
    (forall k', k' <> k -> nth_error (rb_racks rb') k' = nth_error (rb_racks rb) k') /\
    arrays_len (length (rk_vols r')) (rk_comp r') /\ NoDup (map fst (rk_comp r')) /\
    forall kk j, cfrac (rk_comp r') kk j ==
                 closed (nth j (rk_vols r) 0) (cfrac (rk_comp r) kk j) v (fget kk g) (cnt j idxs).
Proof. exact dispense_all_cfrac. Qed.
Print Assumptions C01_composition_dispense_all.

(** a zero volume (which [distribute] accepts) changes no fraction, on either side *)
Theorem C01_composition_add_zero : forall L i v c k j,
  arrays_len (n_wells (lw_geom L)) (lw_comp L) -> (i < n_wells (lw_geom L))%nat ->
  NoDup (map fst (lw_comp L)) -> NoDup (map fst c) ->
  (forall k0, 0 <= cfrac (lw_comp L) k0 i) -> v == 0 ->
  cfrac (lw_comp (add_one L i v (Some c))) k j == cfrac (lw_comp L) k j.
Proof. exact add_one_cfrac0. Qed.
Print Assumptions C01_composition_add_zero.

Theorem C01_composition_mix_zero : forall r i V v g k j,
  arrays_len (length (rk_vols r)) (rk_comp r) -> (i < length (rk_vols r))%nat -> v == 0 ->
  cfrac (mix_into r i V v g) k j == cfrac (rk_comp r) k j.
Proof. exact mix_into_cfrac0. Qed.
Print Assumptions C01_composition_mix_zero.

(** C01_composition_distribute: an accepted [distribute] (any volume the method accepts, zero included) with
    pairwise distinct destination positions, plate or trough destination (several positions of a trough column
    share one real well; source and destination may be the same trough): volumes AND compositions of the
    replayed robot agree with the tracked state *)
Theorem C01_composition_distribute : forall s ks kd dwells a s' rb,
  good_state s -> cstate s -> csim s rb -> distribute_dev_ok s ks -> dst_positions_distinct s kd dwells ->
  distribute s ks kd dwells a = (s', None) ->
  exists new rb', st_wl s' = emit (st_wl s) new /\
    interp true (w_dev (st_wl s)) rb new = Some rb' /\ csim s' rb' /\ cstate s'.
Proof. exact distribute_csim. Qed.
Print Assumptions C01_composition_distribute.

(** the plate-destination case on an EvoWorklist (an instance; the plate hypothesis is not needed) *)
Theorem C01_composition_distribute_plate : forall s ks kd dwells a s' rb,
  good_state s -> cstate s -> csim s rb -> w_dev (st_wl s) = Evo ->
  (forall Ld, nth_error (st_lw s) kd = Some Ld -> g_vrows (lw_geom Ld) = None) ->
  dst_positions_distinct s kd dwells ->
  distribute s ks kd dwells a = (s', None) ->
  exists new rb', st_wl s' = emit (st_wl s) new /\
    interp true Evo rb new = Some rb' /\ csim s' rb' /\ cstate s'.
Proof. exact distribute_csim_plate. Qed.
Print Assumptions C01_composition_distribute_plate.

(** programs of transfers, distributes and record-only calls, every call accepted *)
Theorem C01_composition_run_distribute : forall s0 ops,
  good_state s0 -> cstate s0 -> w_recs (st_wl s0) = [] -> forallb trd_op ops = true ->
  Forall (op_ok s0) ops ->
  Forall (fun e => e = None) (snd (run s0 ops)) ->
  exists rb, interp false (w_dev (st_wl s0)) (robot_of (st_lw s0)) (w_recs (st_wl (fst (run s0 ops)))) = Some rb /\
             csim (fst (run s0 ops)) rb.
Proof. exact run_composition_distribute. Qed.
Print Assumptions C01_composition_run_distribute.

(** non-vacuity: a transfer into the trough, a distribute from trough column 1 into three virtual rows of trough
    column 2 (three positions, one real well: source and destination are the same labware), a distribute from
    column 2 to the plate, a distribute of volume 0 *)
Definition C01_ex_prog_d : list op :=
  [OTransfer 0 (A1 ["A01"%string]) 1 (A1 ["A01"%string]) (A1 [100]) None SFlush "auto"%string kw_default;
   ODistribute 1 1 (A1 ["C02"; "A02"; "B02"]%string) (ex_dargs 0 10);
   ODistribute 1 0 (A1 ["B02"; "A02"]%string) (ex_dargs 1 30);
   ODistribute 1 0 (A1 ["B01"]%string) (ex_dargs 0 0)].

Example C01_example_distribute_hyps :
  forallb trd_op C01_ex_prog_d = true /\ Forall (op_ok (ex_state Evo)) C01_ex_prog_d.
Proof.
  split; [reflexivity|].
  constructor; [exact I|]. constructor; [|constructor; [|constructor; [|constructor]]].
  - split; [left; reflexivity|]. intros Ld ps HLd Hps. cbn in HLd. injection HLd as <-.
    vm_compute in Hps. injection Hps as <-.
    repeat (constructor; [cbn; intuition discriminate|]). constructor.
  - split; [left; reflexivity|]. intros Ld ps HLd Hps. cbn in HLd. injection HLd as <-.
    vm_compute in Hps. injection Hps as <-.
    repeat (constructor; [cbn; intuition discriminate|]). constructor.
  - split; [left; reflexivity|]. intros Ld ps HLd Hps. cbn in HLd. injection HLd as <-.
    vm_compute in Hps. injection Hps as <-.
    repeat (constructor; [cbn; intuition discriminate|]). constructor.
Qed.

Example C01_example_distribute_run :
  let r := run (ex_state Evo) C01_ex_prog_d in
  snd r = [None; None; None; None] /\
  map render (w_recs (st_wl (fst r))) =
    ["A;big;;;1;;100.00;;;;"; "D;T4;;;1;;100.00;;;;"; "F;";
     "R;T4;;;1;4;T4;;;5;7;10;W;1;1;0"; "R;T4;;;5;8;big;;;3;4;30;W;1;1;0";
     "R;T4;;;1;4;big;;;2;2;0;W;1;1;0"]%string /\
  map lw_vols (st_lw (fst r)) = [[2900; 30; 100; 30]; [570; 470]] /\
  match interp false Evo (robot_of (st_lw (ex_state Evo))) (w_recs (st_wl (fst r))) with
  | Some rb => forallb (fun p => C01_fractions_agree (fst p) (snd p)) (combine (st_lw (fst r)) (rb_racks rb)) = true /\
               map (fun r0 => map Qred (map (fun j => cfrac (rk_comp r0) "big.A01"%string j) [0; 1; 2; 3]%nat))
                   (rb_racks rb) = [[1; 1 # 106; 0; 1 # 106]; [1 # 6; 1 # 106; 0; 0]]
  | None => False
  end.
Proof. vm_compute. repeat split; reflexivity. Qed.

(** The composition clause for ALL worklist operations,
      forall s0 ops, good_state s0 -> cstate s0 -> w_recs (st_wl s0) = [] -> forallb wl_op ops = true ->
        Forall (op_ok s0) ops -> Forall (fun e => e = None) (snd (run s0 ops)) ->
        exists rb, interp false (w_dev (st_wl s0)) (robot_of (st_lw s0)) (w_recs (st_wl (fst (run s0 ops)))) = Some rb /\
                   csim (fst (run s0 ops)) rb
    ([C01_composition_run_distribute] with [wl_op] in place of [trd_op]), is FALSE: for a stand-alone aspirate
    followed by a stand-alone dispense,
      [OAspirate 0 ["A01"] 100; ODispense 1 ["A01"] 100]  on  [ex_state Evo],
    both calls are accepted, the file replays and the VOLUMES agree ([sim], C01_run), but the robot's tip
    carries the liquid of plate well A01 into trough column 1 (fraction of "big.A01" there: 100 / 600 = 1/6),
    while the Labware tracking of a plain [dispense] without [compositions=] adds liquid of unknown origin
    (tracked fraction 0).  The property speaks of "liquid that originates from initially filled wells" moved by
    transfer / distribute, where the tracking knows the origin: that reading is what
    [C01_composition_run_distribute] proves (strongest true variant, operations [trd_op]); a bare dispense has
    no origin in the tracking, so no statement about its composition can hold. *)
Theorem C01_composition_dispense_refuted :
  exists s0 ops,
    good_state s0 /\ cstate s0 /\ w_recs (st_wl s0) = [] /\ forallb wl_op ops = true /\
    Forall (op_ok s0) ops /\ Forall (fun e => e = None) (snd (run s0 ops)) /\
    exists rb L r,
      interp false (w_dev (st_wl s0)) (robot_of (st_lw s0)) (w_recs (st_wl (fst (run s0 ops)))) = Some rb /\
      sim (fst (run s0 ops)) rb /\
      nth_error (st_lw (fst (run s0 ops))) 1 = Some L /\ nth_error (rb_racks rb) 1 = Some r /\
      cfrac (rk_comp r) "big.A01"%string 0 == 1 # 6 /\ cfrac (lw_comp L) "big.A01"%string 0 == 0 /\
      ~ csim (fst (run s0 ops)) rb.
Proof. exact composition_dispense_refuted. Qed.
Print Assumptions C01_composition_dispense_refuted.

(** the witness, as a computation: the two records, equal volumes, different fractions of "big.A01" in trough
    column 1 (robot 1/6, tracked 0) *)
Example C01_example_dispense_composition :
  let r := run (ex_state Evo)
             [OAspirate 0 (A1 ["A01"%string]) (A0 (XQ 100)) None kw_default;
              ODispense 1 (A1 ["A01"%string]) (A0 (XQ 100)) None None kw_default] in
  snd r = [None; None] /\
  map render (w_recs (st_wl (fst r))) = ["A;big;;;1;;100.00;;;;"; "D;T4;;;1;;100.00;;;;"]%string /\
  map lw_vols (st_lw (fst r)) = [[2900; 0; 100; 0]; [600; 500]] /\
  match interp false Evo (robot_of (st_lw (ex_state Evo))) (w_recs (st_wl (fst r))) with
  | Some rb => map rk_vols (rb_racks rb) = map lw_vols (st_lw (fst r)) /\
               map (fun r0 => Qred (cfrac (rk_comp r0) "big.A01"%string 0%nat)) (rb_racks rb) = [1; 1 # 6] /\
               map (fun L => Qred (cfrac (lw_comp L) "big.A01"%string 0%nat)) (st_lw (fst r)) = [1; 0]
  | None => False
  end.
Proof. vm_compute. repeat split; reflexivity. Qed.
