(** C01 — the emitted worklist is a refinement of the tracked labware state: executing the records that
    aspirate / dispense / transfer (with or without splitting) / distribute append, with an independent
    interpreter of the worklist format (Spec/Robot.v: racks found by label, device numbering inverted,
    A / D / R records executed on the interpreter's own rack state), starting from the labware's initial
    contents, gives every well the volume the Labware objects report, and every record addresses the rack
    and the device-specific well number of the well the operation named.
    Statements only; proofs live in Proofs/RefinementProofs.v.

    Definitions used (Proofs/RefinementProofs.v):
    [rack_sim L r]: rack [r] has the name, geometry, min and max of labware [L] and [Forall2 Qeq] volumes
      (the tracking normalises with Qred, the interpreter does not, hence [==]);
    [sim s rb] = [Forall2 rack_sim (st_lw s) (rb_racks rb)] (the content of the tip is not constrained);
    [good_state s] = [wf_state s], labware names pairwise distinct, device Evo or Fluent;
    [distribute_dev_ok s ks]: the device is Evo, or it is Fluent and the source trough has one virtual row;
    [dst_positions_distinct s kd dwells]: the device positions of the destination ids are pairwise distinct
      (an R record cannot say "twice into the same position");
    [wl_op o]: [o] is aspirate / dispense / transfer / distribute or a record-only call (comment, wash,
      decontaminate, flush, commit, set_diti); [op_ok s o]: the two side conditions above if [o] is a distribute;
    [ad_addresses d name g asp (well, x) r]: [r] is an A ([asp]) or D record with rack label [name], position
      [device_position d g well] and volume [x];
    [record_dsts f]: the positions [r_dst_start .. r_dst_end] of an R record without its exclusions.
    The two-decimal rendering of a volume ([fmt2]) is a property of the text file, not of the records: the
    interpreter executes the exact [ad_volume]; C07 bounds the rendering error per record.

    Known finding F12 ([C01_distribute_fluent_refuted]): FluentWorklist.distribute writes the source range in
    EVO numbering; with a multi-row trough the record does not address the source column on a Fluent.

    Composition: [cfrac comp k i] = fraction of component [k] in real well [i] of a composition table (0 for an
    unknown name); [cinv L]: component names of [L] pairwise distinct, no negative fraction; [cstate s]: every
    labware is [cinv]; [rack_csim L r] = [rack_sim L r], the rack's table is well-shaped, and
    [cfrac (rk_comp r) k j == cfrac (lw_comp L) k j] for all [k], [j]; [csim s rb] = [Forall2 rack_csim];
    [tr_op o]: [o] is a transfer or a record-only call.  Proved for pipetting steps, transfers and programs of
    transfers; the composition part for [distribute] is open (see the end of this file). *)
From Robo Require Import Prelude Str Wells Utils Labware Tips Records Partition Params Worklist EvoCmd
  Program Invariants Robot LabwareProofs RefinementProofs.
From Coq Require Import Sorting.Sorted.
#[local] Open Scope Q_scope.

(* ------------------------------------------------------------------ numbering and rack lookup *)

(** [unpos] inverts the device numbering on every known well id, plates and troughs *)
Theorem C01_unpos_evo : forall g s rc p, wf_geom g -> well_index g s = Some rc ->
  device_position Evo g s = Ok p -> unpos Evo g p = Some (flat_index g rc).
Proof. exact unpos_evo. Qed.
Print Assumptions C01_unpos_evo.

Theorem C01_unpos_fluent : forall g s rc p, wf_geom g -> well_index g s = Some rc ->
  device_position Fluent g s = Ok p -> unpos Fluent g p = Some (flat_index g rc).
Proof. exact unpos_fluent. Qed.
Print Assumptions C01_unpos_fluent.

(** ... and every known well id has a position on both devices (the hypothesis above is satisfiable) *)
Theorem C01_position_defined : forall d g s rc, wf_geom g -> d <> BaseDev -> well_index g s = Some rc ->
  exists p, device_position d g s = Ok p.
Proof. exact device_position_defined. Qed.
Print Assumptions C01_position_defined.

(** with pairwise distinct names the label of a labware finds its own rack *)
Theorem C01_find_rack : forall lws k L, NoDup (map lw_name lws) -> nth_error lws k = Some L ->
  find_rack (map rack_of lws) (lw_name L) = Some k.
Proof. exact find_rack_of. Qed.
Print Assumptions C01_find_rack.

(** the initial robot corresponds to the initial labware *)
Theorem C01_initial : forall s, sim s (robot_of (st_lw s)).
Proof. exact sim_robot_of. Qed.
Print Assumptions C01_initial.

(* ------------------------------------------------------------------ one accepted call *)

(** the records appended by an accepted [aspirate], interpreted on a robot that corresponds to the state
    before the call, lead to a robot that corresponds to the state after the call *)
Theorem C01_aspirate : forall s k wells vols label kw s' rb,
  good_state s -> sim s rb -> aspirate s k wells vols label kw = (s', None) ->
  exists new rb', st_wl s' = emit (st_wl s) new /\
    interp false (w_dev (st_wl s)) rb new = Some rb' /\ sim s' rb'.
Proof. exact aspirate_robot. Qed.
Print Assumptions C01_aspirate.

Theorem C01_dispense : forall s k wells vols label comps kw s' rb,
  good_state s -> sim s rb -> dispense s k wells vols label comps kw = (s', None) ->
  exists new rb', st_wl s' = emit (st_wl s) new /\
    interp false (w_dev (st_wl s)) rb new = Some rb' /\ sim s' rb'.
Proof. exact dispense_robot. Qed.
Print Assumptions C01_dispense.

(** one pipetting step of a transfer: A record, D record, tip action *)
Theorem C01_exec_step : forall s ks kd sw dw v ws kw s' rb,
  good_state s -> sim s rb -> exec_step s ks kd sw dw v ws kw = (s', None) ->
  exists new rb', st_wl s' = emit (st_wl s) new /\
    interp false (w_dev (st_wl s)) rb new = Some rb' /\ sim s' rb'.
Proof. exact exec_step_robot. Qed.
Print Assumptions C01_exec_step.

(** a whole transfer, whatever the plan (with or without large-volume splitting, any partitioning) *)
Theorem C01_transfer : forall s ks swells kd dwells vols label ws pb kw s' rb,
  good_state s -> sim s rb -> transfer s ks swells kd dwells vols label ws pb kw = (s', None) ->
  exists new rb', st_wl s' = emit (st_wl s) new /\
    interp false (w_dev (st_wl s)) rb new = Some rb' /\ sim s' rb'.
Proof. exact transfer_robot. Qed.
Print Assumptions C01_transfer.

(** [distribute] on an EvoWorklist: the single R record removes n * v from the source column's real well
    and adds v at every destination position that is not excluded *)
Theorem C01_distribute : forall s ks kd dwells a s' rb,
  good_state s -> sim s rb -> w_dev (st_wl s) = Evo -> dst_positions_distinct s kd dwells ->
  distribute s ks kd dwells a = (s', None) ->
  exists new rb', st_wl s' = emit (st_wl s) new /\ interp false Evo rb new = Some rb' /\ sim s' rb'.
Proof. exact distribute_robot_evo. Qed.
Print Assumptions C01_distribute.

(** The same statement for FluentWorklist,
      forall s ks kd dwells a s' rb, good_state s -> sim s rb -> w_dev (st_wl s) = Fluent ->
        dst_positions_distinct s kd dwells -> distribute s ks kd dwells a = (s', None) ->
        exists new rb', st_wl s' = emit (st_wl s) new /\ interp false Fluent rb new = Some rb' /\ sim s' rb',
    is FALSE of the model (and of the code: known finding F12): the record of a distribute from column 2 of
    a trough with 4 virtual rows names the source positions 5..8, which under the Fluent numbering of a
    trough are not positions of that labware. *)
Theorem C01_distribute_fluent_refuted :
  exists s ks kd dwells a s',
    good_state s /\ w_dev (st_wl s) = Fluent /\ dst_positions_distinct s kd dwells /\
    distribute s ks kd dwells a = (s', None) /\
    map render (w_recs (st_wl s')) = ["R;T4;;;5;8;big;;;3;4;10;W;1;1;0"%string] /\
    interp false Fluent (robot_of (st_lw s)) (w_recs (st_wl s')) = None.
Proof. exact distribute_fluent_refuted. Qed.
Print Assumptions C01_distribute_fluent_refuted.

(** the strongest true variant: a source trough with a single virtual row (both numberings coincide) *)
Theorem C01_distribute_fluent_partial : forall s ks kd dwells a s' rb,
  good_state s -> sim s rb -> w_dev (st_wl s) = Fluent ->
  (forall Ls, nth_error (st_lw s) ks = Some Ls -> g_vrows (lw_geom Ls) = Some 1%nat) ->
  dst_positions_distinct s kd dwells ->
  distribute s ks kd dwells a = (s', None) ->
  exists new rb', st_wl s' = emit (st_wl s) new /\ interp false Fluent rb new = Some rb' /\ sim s' rb'.
Proof. exact distribute_robot_fluent_one_row. Qed.
Print Assumptions C01_distribute_fluent_partial.

(* ------------------------------------------------------------------ whole programs *)

(** every call of the program accepted, worklist initially empty: the file replays, from the initial labware
    contents, to a robot in which every well of every labware holds the tracked volume *)
Theorem C01_run : forall s0 ops,
  good_state s0 -> w_recs (st_wl s0) = [] ->
  forallb wl_op ops = true -> Forall (op_ok s0) ops ->
  Forall (fun e => e = None) (snd (run s0 ops)) ->
  exists rb, interp false (w_dev (st_wl s0)) (robot_of (st_lw s0)) (w_recs (st_wl (fst (run s0 ops)))) = Some rb /\
             sim (fst (run s0 ops)) rb.
Proof. exact run_refines. Qed.
Print Assumptions C01_run.

(** pointwise reading of [sim] *)
Theorem C01_sim_volume : forall lws rs k L r j,
  sim_racks lws rs -> nth_error lws k = Some L -> nth_error rs k = Some r ->
  nth j (rk_vols r) 0 == vol_at L j.
Proof. exact sim_vol. Qed.
Print Assumptions C01_sim_volume.

(* ------------------------------------------------------------------ addressing *)

(** the records of [aspirate]: comment lines, then one A record per positive volume, in order, each naming
    the labware's rack and the device position of its well; when the call fails in the record loop the
    records are a prefix *)
Theorem C01_addressing_aspirate : forall s k wells vols label kw s' e L,
  aspirate s k wells vols label kw = (s', e) -> nth_error (st_lw s) k = Some L ->
  exists ls new pre post, st_wl s' = emit (st_wl s) (map RC ls ++ new) /\ (label = None -> ls = []) /\
    filter (fun wx => xpos (snd wx))
           (zip (flattenF wells) (broadcast (flattenF vols) (length (flattenF wells)))) = (pre ++ post)%list /\
    (e = None -> post = []) /\
    Forall2 (ad_addresses (w_dev (st_wl s)) (lw_name L) (lw_geom L) true) pre new.
Proof. exact aspirate_addressing. Qed.
Print Assumptions C01_addressing_aspirate.

Theorem C01_addressing_dispense : forall s k wells vols label comps kw s' e L,
  dispense s k wells vols label comps kw = (s', e) -> nth_error (st_lw s) k = Some L ->
  exists ls new pre post, st_wl s' = emit (st_wl s) (map RC ls ++ new) /\ (label = None -> ls = []) /\
    filter (fun wx => xpos (snd wx))
           (zip (flattenF wells) (broadcast (flattenF vols) (length (flattenF wells)))) = (pre ++ post)%list /\
    (e = None -> post = []) /\
    Forall2 (ad_addresses (w_dev (st_wl s)) (lw_name L) (lw_geom L) false) pre new.
Proof. exact dispense_addressing. Qed.
Print Assumptions C01_addressing_dispense.

Theorem C01_addressing_exec_step : forall s ks kd sw dw v ws kw s' Ls Ld,
  exec_step s ks kd sw dw v ws kw = (s', None) ->
  nth_error (st_lw s) ks = Some Ls -> nth_error (st_lw s) kd = Some Ld ->
  exists newA newD tiprecs, st_wl s' = emit (st_wl s) (newA ++ newD ++ tiprecs) /\
    forallb quiet tiprecs = true /\
    Forall2 (ad_addresses (w_dev (st_wl s)) (lw_name Ls) (lw_geom Ls) true)
            (filter (fun wx => xpos (snd wx)) [(sw, XQ v)]) newA /\
    Forall2 (ad_addresses (w_dev (st_wl s)) (lw_name Ld) (lw_geom Ld) false)
            (filter (fun wx => xpos (snd wx)) [(dw, XQ v)]) newD.
Proof. exact exec_step_addressing. Qed.
Print Assumptions C01_addressing_exec_step.

(** the R record of [distribute]: source and destination rack, the EVO-style source range
    [1 + vrows * col .. vrows * (col + 1)], and start .. end minus exclusions = exactly the positions of the
    destination wells, ascending *)
Theorem C01_addressing_distribute : forall s ks kd dwells a s' Ls Ld vr,
  distribute s ks kd dwells a = (s', None) -> wf_state s ->
  nth_error (st_lw s) ks = Some Ls -> nth_error (st_lw s) kd = Some Ld -> g_vrows (lw_geom Ls) = Some vr ->
  let col := Z.to_nat (d_source_column a) in
  exists ls f ps, st_wl s' = emit (st_wl s) (map RC ls ++ [RR f]) /\
    r_src_label f = lw_name Ls /\ r_dst_label f = lw_name Ld /\
    r_src_start f = Z.of_nat (1 + vr * col) /\ r_src_end f = Z.of_nat (vr * (col + 1)) /\
    (col < g_cols (lw_geom Ls))%nat /\
    positions_of (w_dev (st_wl s)) (lw_geom Ld) (flattenF dwells) = Ok ps /\
    (forall p, In p (record_dsts f) <-> In p ps) /\ StronglySorted lt (record_dsts f).
Proof. exact distribute_addressing. Qed.
Print Assumptions C01_addressing_distribute.

(* ------------------------------------------------------------------ non-vacuity *)

#[local] Open Scope string_scope.

(** [ex_state d]: a 2 x 2 plate "big" (A01 = 3000, B01 = 100, max 5000) and a trough "T4" with 4 virtual
    rows and 2 columns (500 each); worklist with max_volume 950 and auto_split *)
Example C01_example_state : good_state (ex_state Evo) /\ good_state (ex_state Fluent).
Proof. split; apply ex_state_good; discriminate. Qed.

(** a transfer that is split (2000 > 950: 667 + 667 + 666), a distribute from the trough, an aspirate *)
Definition C01_ex_prog : list op :=
  [OTransfer 0 (A1 ["A01"; "B01"]) 0 (A1 ["A02"; "B02"]) (A1 [2000; 50]%Q) (Some "split") SFlush "auto" kw_default;
   ODistribute 1 0 (A1 ["A02"; "B02"]) (ex_dargs 0 25);
   OAspirate 0 (A1 ["A02"]) (A0 (XQ 5)) None kw_default;
   OCommit].

Example C01_example_hyps :
  forallb wl_op C01_ex_prog = true /\ Forall (op_ok (ex_state Evo)) C01_ex_prog /\
  w_recs (st_wl (ex_state Evo)) = [].
Proof.
  split; [reflexivity|]. split; [|reflexivity].
  repeat constructor.
  intros Ld ps HLd Hps. cbn in HLd. injection HLd as <-. vm_compute in Hps. injection Hps as <-.
  constructor; [intros [C|[]]; discriminate|constructor; [intros []|constructor]].
Qed.

Example C01_example_run :
  let r := run (ex_state Evo) C01_ex_prog in
  snd r = [None; None; None; None] /\
  map render (w_recs (st_wl (fst r))) =
    ["C;split"; "A;big;;;1;;667.00;;;;"; "D;big;;;3;;667.00;;;;"; "F;";
     "A;big;;;2;;50.00;;;;"; "D;big;;;4;;50.00;;;;"; "F;"; "B;";
     "A;big;;;1;;667.00;;;;"; "D;big;;;3;;667.00;;;;"; "F;";
     "A;big;;;1;;666.00;;;;"; "D;big;;;3;;666.00;;;;"; "F;"; "B;";
     "R;T4;;;1;4;big;;;3;4;25;W;1;1;0"; "A;big;;;3;;5.00;;;;"; "B;"] /\
  map lw_vols (st_lw (fst r)) = [[1000; 2020; 50; 75]; [450; 500]]%Q /\
  match interp false Evo (robot_of (st_lw (ex_state Evo))) (w_recs (st_wl (fst r))) with
  | Some rb => map rk_vols (rb_racks rb) = map lw_vols (st_lw (fst r))
  | None => False
  end.
Proof. vm_compute. repeat split; reflexivity. Qed.

(* ------------------------------------------------------------------ composition *)

#[local] Close Scope string_scope.

(** the initial robot also agrees on the compositions *)
Theorem C01_composition_initial : forall s, wf_state s -> cstate s -> csim s (robot_of (st_lw s)).
Proof. exact csim_robot_of. Qed.
Print Assumptions C01_composition_initial.

(** the interpreter's mixing: (V f_k + v g_k) / (V + v) in the addressed well, nothing elsewhere *)
Theorem C01_mix_into : forall r i V v g k j,
  arrays_len (length (rk_vols r)) (rk_comp r) -> (i < length (rk_vols r))%nat -> ~ V + v == 0 ->
  cfrac (mix_into r i V v g) k j ==
  if (j =? i)%nat then (V * cfrac (rk_comp r) k i + v * fget k g) / (V + v) else cfrac (rk_comp r) k j.
Proof. exact mix_into_cfrac. Qed.
Print Assumptions C01_mix_into.

(** the model's mixing ([combine_composition] / [write_composition] in one accepted addition): the same *)
Theorem C01_model_mixing : forall L i v c k j,
  arrays_len (n_wells (lw_geom L)) (lw_comp L) -> (i < n_wells (lw_geom L))%nat ->
  NoDup (map fst (lw_comp L)) -> NoDup (map fst c) ->
  (forall k0, 0 <= cfrac (lw_comp L) k0 i) -> ~ vol_at L i + v == 0 ->
  cfrac (lw_comp (add_one L i v (Some c))) k j ==
  if (j =? i)%nat then (vol_at L i * cfrac (lw_comp L) k i + v * fget k c) / (vol_at L i + v)
  else cfrac (lw_comp L) k j.
Proof. exact add_one_cfrac. Qed.
Print Assumptions C01_model_mixing.

(** one pipetting step of a positive volume: volumes AND compositions of the replayed robot agree with the
    tracked state (checked interpreter; the unchecked one follows by [C03_checked_implies_unchecked]) *)
Theorem C01_composition_exec_step : forall s ks kd sw dw v ws kw s' rb,
  good_state s -> cstate s -> csim s rb -> 0 < v -> exec_step s ks kd sw dw v ws kw = (s', None) ->
  exists new rb', st_wl s' = emit (st_wl s) new /\
    interp true (w_dev (st_wl s)) rb new = Some rb' /\ csim s' rb' /\ cstate s'.
Proof. exact exec_step_csim. Qed.
Print Assumptions C01_composition_exec_step.

(** every step of a plan has a positive volume, so a whole transfer *)
Theorem C01_composition_transfer : forall s ks swells kd dwells vols label ws pb kw s' rb,
  good_state s -> cstate s -> csim s rb ->
  transfer s ks swells kd dwells vols label ws pb kw = (s', None) ->
  exists new rb', st_wl s' = emit (st_wl s) new /\
    interp true (w_dev (st_wl s)) rb new = Some rb' /\ csim s' rb' /\ cstate s'.
Proof. exact transfer_csim. Qed.
Print Assumptions C01_composition_transfer.

(** programs of transfers (and record-only calls), every call accepted *)
Theorem C01_composition_run : forall s0 ops,
  good_state s0 -> cstate s0 -> w_recs (st_wl s0) = [] -> forallb tr_op ops = true ->
  Forall (fun e => e = None) (snd (run s0 ops)) ->
  exists rb, interp false (w_dev (st_wl s0)) (robot_of (st_lw s0)) (w_recs (st_wl (fst (run s0 ops)))) = Some rb /\
             csim (fst (run s0 ops)) rb.
Proof. exact run_composition. Qed.
Print Assumptions C01_composition_run.

(** pointwise reading of [csim] *)
Theorem C01_composition_pointwise : forall s rb k0 L r k j, csim s rb ->
  nth_error (st_lw s) k0 = Some L -> nth_error (rb_racks rb) k0 = Some r ->
  cfrac (rk_comp r) k j == cfrac (lw_comp L) k j.
Proof. exact csim_fraction. Qed.
Print Assumptions C01_composition_pointwise.

Example C01_example_cstate : cstate (ex_state Evo).
Proof. apply ex_state_cstate. Qed.

(** all fractions of all named components agree, as a computation *)
Definition C01_fractions_agree (L : labware) (r : rack) : bool :=
  forallb (fun k => forallb (fun j => Qeq_bool (cfrac (rk_comp r) k j) (cfrac (lw_comp L) k j))
                            (seq 0 (length (lw_vols L))))
          (map fst (lw_comp L) ++ map fst (rk_comp r)).

Example C01_example_composition :
  let r := run (ex_state Evo)
    [OTransfer 0 (A1 ["A01"; "B01"]%string) 0 (A1 ["A02"; "A02"]%string) (A1 [2000; 50]) None SFlush "auto"%string kw_default;
     OTransfer 0 (A1 ["A02"]%string) 1 (A1 ["A01"]%string) (A1 [100]) None SFlush "auto"%string kw_default] in
  snd r = [None; None] /\
  map lw_vols (st_lw (fst r)) = [[1000; 1950; 50; 0]; [600; 500]] /\
  match interp false Evo (robot_of (st_lw (ex_state Evo))) (w_recs (st_wl (fst r))) with
  | Some rb => forallb (fun p => C01_fractions_agree (fst p) (snd p)) (combine (st_lw (fst r)) (rb_racks rb)) = true /\
               map (fun r0 => Qred (cfrac (rk_comp r0) "big.A01"%string 0%nat)) (rb_racks rb) = [1; 20 # 123]
  | None => False
  end.
Proof. vm_compute. repeat split; reflexivity. Qed.

(** C01_composition for [distribute] — NOT PROVED.  Wanted: [csim] (volumes and compositions) after an accepted
    [distribute], hence [C01_composition_run] for programs of OTransfer and ODistribute.  The volume part is
    [C01_distribute]; for the compositions the R record dispenses in ascending position order while the tracking
    adds in the order of the destination ids, and several positions of a destination trough address the same
    real well, so the lock-step argument of [C01_composition_exec_step] does not apply directly: missing is the
    closed form (V f_k + n v g_k) / (V + n v) after n additions of the same liquid to a well (on both sides),
    which makes the result independent of the order. *)
