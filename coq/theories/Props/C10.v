(** C10 — tip arguments and the Tecan tip bit mask.
    Statements only; proofs live in Proofs/TipsProofs.v and Proofs/TextExtraProofs.v.

    Where the clauses of the property are proved:
    - a number n / Tip member Tn -> 2^(n-1), collections -> bitwise OR independent of order and repetition,
      Tip.Any alone -> empty field, invalid elements rejected: this file (C10_single .. C10_reject_iff);
    - "the mask appears in the record": C09_prepare_ok ([tip_mask (x_tip a) = Ok (ad_tip f)]) and
      C09_roundtrip_AD ([pa_tip p = ad_tip f] after parsing the text);
    - "both records of a transfer pair carry the same mask": C07_pairing ([pair_records]: [ad_tip fd = ad_tip fa],
      [kw_fields]); stated here as C10_pair_same_mask;
    - "the records produced through aspirate / dispense / transfer keyword pass-through": every A / D record these
      calls append shows, in its parsed text, the mask of the [tip] keyword: C10_passthrough_mask (a corollary of
      C09_aspirate_passthrough / C09_dispense_passthrough / C09_transfer_passthrough in Props/C09.v, which give all
      pass-through fields; proofs in Proofs/PassThroughProofs.v);
    - "EVO script commands": C13_fields / C13_parse_fields ([cm_mask c = Z.of_N (mask_or bs)]) and C13_wash;
      stated here on the parsed command text as C10_command_mask / C10_wash_mask.
    KNOWN FINDING (review item M15): an EMPTY collection of tips is not rejected.  Model and library agree:
    [tip_mask (TipMany []) = Ok (Some 0)], Python [aspirate_well("P", 1, 10, tip=[])] appends
    "A;P;;;1;;10.00;;;0;" (tip mask 0 selects no tip), likewise tip=(), set(), "" ; [evo_wash(tips=[])]
    emits mask 0 (C13_example_wash_reject).  So "everything else is rejected" holds for invalid ELEMENTS
    (C10_reject_iff) but not for the empty collection (C10_empty_collection). *)
From Robo Require Import Prelude Str Wells Utils Labware Tips Records Partition Params Worklist EvoCmd
  CmdDecode CmdParse Gwl TipsProofs PlanProofs EvoCmdProofs TextExtraProofs PassThroughProofs.
From Coq Require Import Permutation.

(** a number n in 1..8 and the Tip member Tn are both emitted as 2^(n-1) *)
Theorem C10_single : forall n : nat, 1 <= n <= 8 ->
  tip_mask (TipOne (TInt (Z.of_nat n))) = Ok (Some (2 ^ N.of_nat (n - 1))%N) /\
  tip_mask (TipOne (TTip n)) = Ok (Some (2 ^ N.of_nat (n - 1))%N).
Proof. exact tip_mask_single. Qed.
Print Assumptions C10_single.

(** a collection of valid tips: the emitted [sum(set(tips))] is the bitwise OR of the tip bits *)
Theorem C10_or : forall (l : list tipelem) (bs : list nat), elems_bits l = Some bs ->
  tip_mask (TipMany l) = Ok (Some (mask_or bs)).
Proof. exact tip_mask_many_or. Qed.
Print Assumptions C10_or.

(** the OR, and hence the emitted field (mask or rejection), does not depend on order or repetition;
    numbers and Tip members are interchangeable *)
Theorem C10_perm_dup :
  (forall l l' : list nat, Permutation l l' -> mask_or l = mask_or l') /\
  (forall (x : nat) (l : list nat), In x l -> mask_or (x :: l) = mask_or l) /\
  (forall l l' : list tipelem, Permutation l l' -> tip_mask (TipMany l) = tip_mask (TipMany l')) /\
  (forall (e : tipelem) (l : list tipelem), In e l -> tip_mask (TipMany (e :: l)) = tip_mask (TipMany l)) /\
  (forall l l' : list tipelem, (forall e, In e l <-> In e l') -> tip_mask (TipMany l) = tip_mask (TipMany l')) /\
  (forall n : nat, elem_bit (TInt (Z.of_nat n)) = elem_bit (TTip n)) /\
  (forall (l1 l2 : list tipelem) (n : nat),
     tip_mask (TipMany (l1 ++ TInt (Z.of_nat n) :: l2)) = tip_mask (TipMany (l1 ++ TTip n :: l2))).
Proof. exact tip_mask_perm_dup. Qed.
Print Assumptions C10_perm_dup.

(** the mask has exactly the bits of the given tips (bit i <-> tip i+1 given), and fits in 8 bits *)
Theorem C10_bits :
  (forall (bs : list nat) (i : nat), N.testbit (mask_or bs) (N.of_nat i) = existsb (Nat.eqb i) bs) /\
  (forall (l : list tipelem) (bs : list nat), elems_bits l = Some bs ->
     (forall b, In b bs <-> exists e, In e l /\ elem_bit e = Some b) /\ (mask_or bs < 256)%N).
Proof. exact tip_mask_bits. Qed.
Print Assumptions C10_bits.

(** Tip.Any alone: empty field *)
Theorem C10_any : tip_mask (TipOne TAny) = Ok None.
Proof. exact tip_mask_any. Qed.
Print Assumptions C10_any.

(** everything else is rejected - with one exception, the empty collection (C10_empty_collection) *)
Theorem C10_reject :
  (forall z, (z < 1 \/ z > 8)%Z -> exists e, tip_mask (TipOne (TInt z)) = Err e) /\
  (exists e, tip_mask (TipOne TOther) = Err e) /\
  (forall l, In TAny l \/ In TOther l \/ (exists z, In (TInt z) l /\ (z < 1 \/ z > 8)%Z) ->
             exists e, tip_mask (TipMany l) = Err e).
Proof. exact tip_mask_reject. Qed.
Print Assumptions C10_reject.

(** ... and a collection is rejected only for such an element *)
Theorem C10_reject_iff : forall l : list tipelem,
  (exists e, tip_mask (TipMany l) = Err e) <-> (exists x, In x l /\ elem_bit x = None).
Proof. exact tip_mask_many_err_iff. Qed.
Print Assumptions C10_reject_iff.

(** the empty collection is accepted and yields mask 0 (no tip selected); see the header *)
Theorem C10_empty_collection : tip_mask (TipMany []) = Ok (Some 0%N).
Proof. exact tx_empty_collection. Qed.
Print Assumptions C10_empty_collection.

(** both records of an executed transfer step (C07_pairing) carry the mask of the [tip] keyword *)
Theorem C10_pair_same_mask : forall s ks kd sw dw v ws kw s', (0 < v)%Q ->
  exec_step s ks kd sw dw v ws kw = (s', None) ->
  exists fa fd tip m,
    w_recs (st_wl s') = (w_recs (st_wl s) ++ [RA fa; RD fd] ++ tip)%list /\
    tip_mask (k_tip kw) = Ok m /\ ad_tip fa = m /\ ad_tip fd = m.
Proof. exact tx_pair_same_mask. Qed.
Print Assumptions C10_pair_same_mask.

(** keyword pass-through (REVIEW.md M15).  [rec_mask m r]: if [r] is an A / D record, the tip-mask field of its
    TEXT, read by the independent parser of Spec/Gwl.v, is [m] ([None]: the empty field of Tip.Any) *)
Definition rec_mask (m : option N) (r : srec) : Prop :=
  match r with
  | RA _ => exists p, parse_record (render r) = Some (PA p) /\ pa_tip p = m
  | RD _ => exists p, parse_record (render r) = Some (PD p) /\ pa_tip p = m
  | _ => True
  end.

(** [w'] is [w] plus records whose A / D records all carry the mask of [k_tip kw]; with an invalid tip argument
    no A / D record is appended at all *)
Definition emits_mask (kw : kwargs) (w w' : wstate) : Prop :=
  exists new, w' = emit w new /\
    (forall m, tip_mask (k_tip kw) = Ok m -> Forall (rec_mask m) new) /\
    (forall e, tip_mask (k_tip kw) = Err e ->
       forallb (fun r => match r with RA _ | RD _ => false | _ => true end) new = true).

(** every A / D record appended by aspirate / dispense / transfer (whatever the outcome of the call) carries the
    mask of the [tip] keyword; in particular all records of one call carry the same mask *)
Theorem C10_passthrough_mask : forall kw s s' e,
  (forall k wells vols label, aspirate s k wells vols label kw = (s', e) -> emits_mask kw (st_wl s) (st_wl s')) /\
  (forall k wells vols label comps, dispense s k wells vols label comps kw = (s', e) ->
     emits_mask kw (st_wl s) (st_wl s')) /\
  (forall ks swells kd dwells vols label ws pb, transfer s ks swells kd dwells vols label ws pb kw = (s', e) ->
     emits_mask kw (st_wl s) (st_wl s')).
Proof. exact pt_passthrough_mask. Qed.
Print Assumptions C10_passthrough_mask.

(** the mask written into an Aspirate / Dispense script command (read from the command text with the
    independent parser of Spec/CmdParse.v) is the mask of the tip list; [tx_lc_clean]: the liquid class has
    no comma and no double quote (C13) *)
Theorem C10_command_mask : forall kind R C a m text,
  kind = "Aspirate"%string \/ kind = "Dispense"%string -> tx_lc_clean (c_liquid_class a) ->
  evo_command kind R C a m = Ok text ->
  exists c mk, parse_cmd text = Some c /\ tip_mask (TipMany (c_tips a)) = Ok (Some mk) /\
               cm_mask c = Z.of_N mk.
Proof. exact tx_command_mask. Qed.
Print Assumptions C10_command_mask.

(** the same for the Wash command *)
Theorem C10_wash_mask : forall a text, evo_wash_cmd a = Ok text ->
  exists wc mk, parse_wash text = Some wc /\ tip_mask (TipMany (wa_tips a)) = Ok (Some mk) /\
                wc_mask wc = Z.of_N mk.
Proof. exact tx_wash_mask. Qed.
Print Assumptions C10_wash_mask.

(** non-vacuity: mixed numbers and Tip members, repeated and unordered: tips 8, 2, 3 -> 128+2+4 *)
Example C10_example :
  elems_bits [TInt 8; TTip 2; TInt 2; TTip 8; TInt 3; TTip 2] = Some [7; 1; 1; 7; 2; 1] /\
  tip_mask (TipMany [TInt 8; TTip 2; TInt 2; TTip 8; TInt 3; TTip 2]) = Ok (Some 134%N) /\
  mask_or [7; 1; 1; 7; 2; 1] = 134%N /\
  tip_mask (TipOne (TTip 5)) = Ok (Some 16%N) /\
  tip_mask (TipMany [TInt 1; TAny]) = Err EReject /\
  tip_mask (TipMany [TInt 9]) = Err EReject.
Proof. vm_compute. repeat split; reflexivity. Qed.

(** non-vacuity of C10_pair_same_mask: an accepted transfer step with tips [3; T1; 3] on a 2 x 2 plate: both
    records carry mask 5.  (For C10_command_mask / C10_wash_mask see C13_example_text, C13_example_wash.) *)
Definition ex_lw : labware :=
  {| lw_name := "P"; lw_geom := {| g_rows := 2; g_cols := 2; g_vrows := None |};
     lw_min := 0; lw_max := 200; lw_vols := repeat 100%Q 4; lw_comp := [];
     lw_hist := [(Some "initial"%string, repeat 100%Q 4)] |}.
Definition ex_state : state :=
  {| st_lw := [ex_lw];
     st_wl := {| w_recs := []; w_max := 950; w_autosplit := true; w_diti := false; w_dev := Evo |} |}.
Definition ex_kw : kwargs :=
  {| k_liquid_class := PStr "W"; k_tip := TipMany [TInt 3; TTip 1; TInt 3]; k_rack_id := PStr "";
     k_tube_id := PStr ""; k_rack_type := PStr ""; k_forced := PStr "" |}.

Example C10_example_pair :
  let r := exec_step ex_state 0 0 "A01" "B02" 10 (SInt 1) ex_kw in
  snd r = None /\
  map render (w_recs (st_wl (fst r))) = ["A;P;;;1;;10.00;W;;5;"; "D;P;;;4;;10.00;W;;5;"; "W1;"]%string /\
  tip_mask (k_tip ex_kw) = Ok (Some 5%N) /\
  map render (w_recs (fst (aspirate_well (st_wl ex_state)
     {| x_rack_label := PStr "P"; x_position := PInt 1; x_volume := PV (XQ 10); x_liquid_class := PStr "";
        x_tip := TipMany []; x_rack_id := PStr ""; x_tube_id := PStr ""; x_rack_type := PStr "";
        x_forced := PStr "" |}))) = ["A;P;;;1;;10.00;;;0;"]%string.
Proof. vm_compute. repeat split; reflexivity. Qed.

(** non-vacuity of C10_passthrough_mask: a stand-alone aspirate of two wells with tips [3; T1; 3]: both A records
    carry mask 5; with an invalid tip (9) the call raises and no record is appended (the plate stays charged) *)
Example C10_example_passthrough :
  let r := aspirate ex_state 0 (A1 ["A01"; "B01"]%string) (A0 (XQ 10)) None ex_kw in
  let r' := aspirate ex_state 0 (A1 ["A01"; "B01"]%string) (A0 (XQ 10)) None
              {| k_liquid_class := PStr "W"; k_tip := TipOne (TInt 9); k_rack_id := PStr "";
                 k_tube_id := PStr ""; k_rack_type := PStr ""; k_forced := PStr "" |} in
  snd r = None /\
  map render (w_recs (st_wl (fst r))) = ["A;P;;;1;;10.00;W;;5;"; "A;P;;;2;;10.00;W;;5;"]%string /\
  map (fun x => match parse_record (render x) with Some (PA p) => pa_tip p | _ => None end)
      (w_recs (st_wl (fst r))) = [Some 5%N; Some 5%N] /\
  snd r' = Some EReject /\ w_recs (st_wl (fst r')) = [] /\
  map lw_vols (st_lw (fst r')) = [[90; 100; 90; 100]]%Q.
Proof. vm_compute. repeat split; reflexivity. Qed.
