(** C10 — tip arguments and the Tecan tip bit mask.
    Statements only; proofs live in Proofs/TipsProofs.v. *)
From Robo Require Import Prelude Tips TipsProofs.
From Coq Require Import Permutation.

(** a number n in 1..8 and the Tip member Tn are both emitted as 2^(n-1) *)
Theorem C10_single : forall n : nat, 1 <= n <= 8 ->
  tip_mask (TipOne (TInt (Z.of_nat n))) = Ok (Some (2 ^ N.of_nat (n - 1))%N) /\
  tip_mask (TipOne (TTip n)) = Ok (Some (2 ^ N.of_nat (n - 1))%N).
Proof. exact tip_mask_single. Qed.
Print Assumptions C10_single.

(** a collection of valid tips: the emitted [sum(set(tips))] is the bitwise OR of the tip bits *)
Theorem C10_or : forall (l : list tipelem) (bs : list nat), elems_bits l = Some bs ->
  tip_mask (TipMany l) = Ok (Some (mask_or bs)).
Proof. exact tip_mask_many_or. Qed.
Print Assumptions C10_or.

(** the OR, and hence the emitted field (mask or rejection), does not depend on order or repetition;
    numbers and Tip members are interchangeable *)
Theorem C10_perm_dup :
  (forall l l' : list nat, Permutation l l' -> mask_or l = mask_or l') /\
  (forall (x : nat) (l : list nat), In x l -> mask_or (x :: l) = mask_or l) /\
  (forall l l' : list tipelem, Permutation l l' -> tip_mask (TipMany l) = tip_mask (TipMany l')) /\
  (forall (e : tipelem) (l : list tipelem), In e l -> tip_mask (TipMany (e :: l)) = tip_mask (TipMany l)) /\
  (forall l l' : list tipelem, (forall e, In e l <-> In e l') -> tip_mask (TipMany l) = tip_mask (TipMany l')) /\
  (forall n : nat, elem_bit (TInt (Z.of_nat n)) = elem_bit (TTip n)) /\
  (forall (l1 l2 : list tipelem) (n : nat),
     tip_mask (TipMany (l1 ++ TInt (Z.of_nat n) :: l2)) = tip_mask (TipMany (l1 ++ TTip n :: l2))).
Proof. exact tip_mask_perm_dup. Qed.
Print Assumptions C10_perm_dup.

(** the mask has exactly the bits of the given tips (bit i <-> tip i+1 given), and fits in 8 bits *)
Theorem C10_bits :
  (forall (bs : list nat) (i : nat), N.testbit (mask_or bs) (N.of_nat i) = existsb (Nat.eqb i) bs) /\
  (forall (l : list tipelem) (bs : list nat), elems_bits l = Some bs ->
     (forall b, In b bs <-> exists e, In e l /\ elem_bit e = Some b) /\ (mask_or bs < 256)%N).
Proof. exact tip_mask_bits. Qed.
Print Assumptions C10_bits.

(** Tip.Any alone: empty field *)
Theorem C10_any : tip_mask (TipOne TAny) = Ok None.
Proof. exact tip_mask_any. Qed.
Print Assumptions C10_any.

(** everything else is rejected *)
Theorem C10_reject :
  (forall z, (z < 1 \/ z > 8)%Z -> exists e, tip_mask (TipOne (TInt z)) = Err e) /\
  (exists e, tip_mask (TipOne TOther) = Err e) /\
  (forall l, In TAny l \/ In TOther l \/ (exists z, In (TInt z) l /\ (z < 1 \/ z > 8)%Z) ->
             exists e, tip_mask (TipMany l) = Err e).
Proof. exact tip_mask_reject. Qed.
Print Assumptions C10_reject.

(** ... and a collection is rejected only for such an element *)
Theorem C10_reject_iff : forall l : list tipelem,
  (exists e, tip_mask (TipMany l) = Err e) <-> (exists x, In x l /\ elem_bit x = None).
Proof. exact tip_mask_many_err_iff. Qed.
Print Assumptions C10_reject_iff.

(** non-vacuity: mixed numbers and Tip members, repeated and unordered: tips 8, 2, 3 -> 128+2+4 *)
Example C10_example :
  elems_bits [TInt 8; TTip 2; TInt 2; TTip 8; TInt 3; TTip 2] = Some [7; 1; 1; 7; 2; 1] /\
  tip_mask (TipMany [TInt 8; TTip 2; TInt 2; TTip 8; TInt 3; TTip 2]) = Ok (Some 134%N) /\
  mask_or [7; 1; 1; 7; 2; 1] = 134%N /\
  tip_mask (TipOne (TTip 5)) = Ok (Some 16%N) /\
  tip_mask (TipMany [TInt 1; TAny]) = Err EReject /\
  tip_mask (TipMany [TInt 9]) = Err EReject.
Proof. vm_compute. repeat split; reflexivity. Qed.
