(** C08 — Well numbering is column-major, 1-based, and device-specific for troughs; operations naming a
    well id that does not exist in the labware raise without emitting a record.
    Statements only; proofs in Proofs/WellsProofs.v and (worklist level, audit item M7)
    Proofs/WorklistLevelProofs.v.

    For M7: the guard is [lw_index L w = None] ([labware.indices[w]] raises KeyError), not the position
    functions.  [remove_stops_at] / [add_stops_at] (stated below) describe where a rejected removal /
    addition stopped; [record_error e] = [e] is EReject, EInvalidOp or ECompat; [ex_plate] / [ex_trough] are
    the example labware of Proofs/LabwareProofs.v (2 x 3 plate; trough with 8 virtual rows, 2 columns). *)
From Robo Require Import Prelude Str Wells Utils Labware Tips Records Partition Params Worklist EvoCmd
  Program Invariants WellsProofs LabwareProofs WorklistLevelProofs.

Definition plate (R C : nat) : geom := {| g_rows := R; g_cols := C; g_vrows := None |}.
Definition trough (V C : nat) : geom := {| g_rows := 1; g_cols := C; g_vrows := Some V |}.

(** ids are parsed back: the regex of get_well_position applied to the id the labware generates *)
Theorem C08_parse_id : forall r c, r < 26 ->
  parse_id (well_id r c) = Some (String (row_letter r) EmptyString, N.of_nat (c + 1)).
Proof. exact parse_id_well_id. Qed.
Print Assumptions C08_parse_id.

(** plates: 1 + column * rows + row on both devices, for every geometry and every well *)
Theorem C08_plate : forall R C r c, 1 <= R <= 26 -> r < R -> c < C ->
  evo_position (plate R C) (well_id r c) = Ok (1 + c * R + r) /\
  fluent_position (plate R C) (well_id r c) = Ok (1 + c * R + r) /\
  positions_attr (plate R C) (well_id r c) = Some (1 + c * R + r) /\
  well_index (plate R C) (well_id r c) = Some (r, c).
Proof. exact plate_positions. Qed.
Print Assumptions C08_plate.

(** troughs: EVO counts the virtual rows, Fluent numbers the columns; every virtual row of a column is
    the same real well *)
Theorem C08_trough : forall V C r c, 1 <= V <= 26 -> r < V -> c < C ->
  evo_position (trough V C) (well_id r c) = Ok (1 + c * V + r) /\
  fluent_position (trough V C) (well_id r c) = Ok (1 + c) /\
  positions_attr (trough V C) (well_id r c) = Some (1 + c * V + r) /\
  well_index (trough V C) (well_id r c) = Some (0, c).
Proof. exact trough_positions. Qed.
Print Assumptions C08_trough.

(** the numbering is a bijection between (row, column) and 1..R*C, with explicit inverse *)
Theorem C08_bijection : forall R C, 0 < R ->
  (forall r c, r < R -> c < C -> 1 <= pos_of R r c <= R * C) /\
  (forall r c, r < R -> ((pos_of R r c - 1) mod R, (pos_of R r c - 1) / R) = (r, c)) /\
  (forall p, 1 <= p <= R * C ->
     (p - 1) mod R < R /\ (p - 1) / R < C /\ pos_of R ((p - 1) mod R) ((p - 1) / R) = p).
Proof. exact pos_of_bijection. Qed.
Print Assumptions C08_bijection.

(** ids determine (row, column): the id map is injective *)
Theorem C08_id_injective : forall r c r' c', r < 26 -> r' < 26 ->
  well_id r c = well_id r' c' -> r = r' /\ c = c'.
Proof. exact well_id_injective. Qed.
Print Assumptions C08_id_injective.

(** the canonical-id decomposition used by [indices] / [positions] inverts the id map, and accepts
    nothing but canonical ids ("A1", "a01", "A001" are not keys) *)
Theorem C08_id_rc : forall r c, r < 26 -> id_rc (well_id r c) = Some (r, c).
Proof. exact id_rc_well_id. Qed.
Print Assumptions C08_id_rc.

Theorem C08_id_rc_inv : forall s r c, id_rc s = Some (r, c) -> s = well_id r c /\ r < 26.
Proof. exact id_rc_inv. Qed.
Print Assumptions C08_id_rc_inv.

(** the [wells] table holds exactly these ids, and [indices] knows exactly the ids of the table *)
Theorem C08_tables : forall g r c, r < n_row_ids g -> c < g_cols g ->
  nth c (nth r (wells_table g) []) EmptyString = well_id r c.
Proof. exact wells_table_nth. Qed.
Print Assumptions C08_tables.

Theorem C08_index_domain : forall g s rc, well_index g s = Some rc ->
  exists r c, r < n_row_ids g /\ c < g_cols g /\ s = well_id r c /\
              rc = (match g_vrows g with Some _ => 0 | None => r end, c).
Proof. exact well_index_domain. Qed.
Print Assumptions C08_index_domain.

(** [indices] is defined exactly on the entries of the [wells] table *)
Theorem C08_index_defined_iff : forall g s,
  (exists rc, well_index g s = Some rc) <->
  (exists r c, r < n_row_ids g /\ c < g_cols g /\ s = well_id r c).
Proof. exact well_index_defined_iff. Qed.
Print Assumptions C08_index_defined_iff.

(** make_well_array / make_well_index_dict agree with the labware tables.
    NOTE (audit M7): this statement is definitional - the model defines the two helpers as these very tables
    ([Model/Wells.v]), so it only records that fact.  The non-definitional link between the helper table and
    the numbering is [C08_position_is_colmajor_index] below. *)
Theorem C08_helpers : forall R C,
  make_well_array R C = wells_table (plate R C) /\
  forall s, make_well_index R C s = well_index (plate R C) s.
Proof. exact helpers_agree. Qed.
Print Assumptions C08_helpers.

(** the position computed arithmetically is 1 + the index of the well in the column-major enumeration of
    [make_well_array R C] ([numpy.array(wells).flatten("F")]), on both devices, for every plate *)
Theorem C08_position_is_colmajor_index : forall R C r c, 1 <= R <= 26 -> r < R -> c < C ->
  length (flattenF (A2 (make_well_array R C))) = R * C /\
  nth (pos_of R r c - 1) (flattenF (A2 (make_well_array R C))) EmptyString = well_id r c /\
  evo_position (plate R C) (well_id r c) = Ok (pos_of R r c) /\
  fluent_position (plate R C) (well_id r c) = Ok (pos_of R r c).
Proof. exact position_is_colmajor_index. Qed.
Print Assumptions C08_position_is_colmajor_index.

(* ================================================================== unknown well ids (M7) *)

(** where a rejected removal / addition stopped: the arguments were refused and nothing happened, or the
    pairs [pre] before the refused one [it] have been applied ([comps_of wv comps] = the compositions paired
    with the wells, [add_items] = the loop argument of [add]) *)
Definition remove_stops_at (L : labware) (wells : arr string) (vols : arr xnum) (L' : labware) (e : err)
    : Prop :=
  (prep_wells_vols wells vols = Err EReject /\ L' = L /\ e = EReject) \/
  exists pre it post,
    prep_wells_vols wells vols = Ok (pre ++ it :: post)%list /\ remove_loop L pre = (L', None) /\
    remove_loop L' [it] = (L', Some e).

Definition add_stops_at (L : labware) (wells : arr string) (vols : arr xnum)
    (comps : option (list (option composition))) (L' : labware) (e : err) : Prop :=
  (prep_wells_vols wells vols = Err EReject /\ L' = L /\ e = EReject) \/
  (exists wv, prep_wells_vols wells vols = Ok wv /\ length (comps_of wv comps) <> length wv /\
              L' = L /\ e = EReject) \/
  exists wv pre it post,
    prep_wells_vols wells vols = Ok wv /\ length (comps_of wv comps) = length wv /\
    add_items wv comps = (pre ++ it :: post)%list /\ add_loop L pre = (L', None) /\
    add_loop L' [it] = (L', Some e).

Definition record_error (e : err) : Prop := e = EReject \/ e = EInvalidOp \/ e = ECompat.

(** direct calls: a call naming an unknown id is never accepted *)
Theorem C08_remove_unknown_well : forall L wells vols label,
  (exists w, In w (flattenF wells) /\ lw_index L w = None) ->
  exists L' e, remove L wells vols label = (L', Some e).
Proof. exact remove_unknown. Qed.
Print Assumptions C08_remove_unknown_well.

Theorem C08_add_unknown_well : forall L wells vols label comps,
  (exists w, In w (flattenF wells) /\ lw_index L w = None) ->
  exists L' e, add L wells vols label comps = (L', Some e).
Proof. exact add_unknown. Qed.
Print Assumptions C08_add_unknown_well.

(** [aspirate] / [dispense] / [evo_aspirate] / [evo_dispense] naming an unknown id: the call raises, the
    worklist is unchanged (no record, no comment), no history entry is written, every other labware is
    untouched *)
Theorem C08_aspirate_unknown_well : forall s k wells vols label kw L,
  nth_error (st_lw s) k = Some L -> (exists w, In w (flattenF wells) /\ lw_index L w = None) ->
  let r := aspirate s k wells vols label kw in
  (exists e, snd r = Some e) /\ st_wl (fst r) = st_wl s /\ w_recs (st_wl (fst r)) = w_recs (st_wl s) /\
  map lw_hist (st_lw (fst r)) = map lw_hist (st_lw s) /\
  forall j, j <> k -> nth_error (st_lw (fst r)) j = nth_error (st_lw s) j.
Proof. exact aspirate_unknown_no_record. Qed.
Print Assumptions C08_aspirate_unknown_well.

Theorem C08_dispense_unknown_well : forall s k wells vols label comps kw L,
  nth_error (st_lw s) k = Some L -> (exists w, In w (flattenF wells) /\ lw_index L w = None) ->
  let r := dispense s k wells vols label comps kw in
  (exists e, snd r = Some e) /\ st_wl (fst r) = st_wl s /\ w_recs (st_wl (fst r)) = w_recs (st_wl s) /\
  map lw_hist (st_lw (fst r)) = map lw_hist (st_lw s) /\
  forall j, j <> k -> nth_error (st_lw (fst r)) j = nth_error (st_lw s) j.
Proof. exact dispense_unknown_no_record. Qed.
Print Assumptions C08_dispense_unknown_well.

Theorem C08_evo_aspirate_unknown_well : forall s k a label L,
  nth_error (st_lw s) k = Some L -> (exists w, In w (flattenF (c_wells a)) /\ lw_index L w = None) ->
  let r := evo_aspirate s k a label in
  (exists e, snd r = Some e) /\ st_wl (fst r) = st_wl s /\ w_recs (st_wl (fst r)) = w_recs (st_wl s) /\
  map lw_hist (st_lw (fst r)) = map lw_hist (st_lw s) /\
  forall j, j <> k -> nth_error (st_lw (fst r)) j = nth_error (st_lw s) j.
Proof. exact evo_aspirate_unknown_no_record. Qed.
Print Assumptions C08_evo_aspirate_unknown_well.

Theorem C08_evo_dispense_unknown_well : forall s k a label comps L,
  nth_error (st_lw s) k = Some L -> (exists w, In w (flattenF (c_wells a)) /\ lw_index L w = None) ->
  let r := evo_dispense s k a label comps in
  (exists e, snd r = Some e) /\ st_wl (fst r) = st_wl s /\ w_recs (st_wl (fst r)) = w_recs (st_wl s) /\
  map lw_hist (st_lw (fst r)) = map lw_hist (st_lw s) /\
  forall j, j <> k -> nth_error (st_lw (fst r)) j = nth_error (st_lw s) j.
Proof. exact evo_dispense_unknown_no_record. Qed.
Print Assumptions C08_evo_dispense_unknown_well.

(** "and all labware volumes are unchanged" is FALSE for these four calls: [add] / [remove] look an id up when
    its pair is reached, so the pairs before the unknown id have been applied (the library does the same:
    the loop of Labware.add / Labware.remove indexes [self.indices[well]] pair by pair) *)
Theorem C08_aspirate_unknown_volumes_refuted :
  exists s k L wells vols label kw,
    nth_error (st_lw s) k = Some L /\ (exists w, In w (flattenF wells) /\ lw_index L w = None) /\
    map lw_vols (st_lw (fst (aspirate s k wells vols label kw))) <> map lw_vols (st_lw s).
Proof. exact aspirate_unknown_volumes_refuted. Qed.
Print Assumptions C08_aspirate_unknown_volumes_refuted.

Theorem C08_dispense_unknown_volumes_refuted :
  exists s k L wells vols label comps kw,
    nth_error (st_lw s) k = Some L /\ (exists w, In w (flattenF wells) /\ lw_index L w = None) /\
    map lw_vols (st_lw (fst (dispense s k wells vols label comps kw))) <> map lw_vols (st_lw s).
Proof. exact dispense_unknown_volumes_refuted. Qed.
Print Assumptions C08_dispense_unknown_volumes_refuted.

(** what holds for the volumes (the _partial statements): the resulting state is [set_lw s k L'], where [L']
    is the labware after the accepted pairs before the refused one; volumes only went down (up) *)
Theorem C08_aspirate_unknown_well_partial : forall s k wells vols label kw L,
  nth_error (st_lw s) k = Some L -> (exists w, In w (flattenF wells) /\ lw_index L w = None) ->
  exists L' e, aspirate s k wells vols label kw = (set_lw s k L', Some e) /\
    (e = EUnderflow \/ e = EReject) /\ lw_hist L' = lw_hist L /\ lw_geom L' = lw_geom L /\
    remove_stops_at L wells vols L' e /\ forall i, (vol_at L' i <= vol_at L i)%Q.
Proof. exact aspirate_unknown_well. Qed.
Print Assumptions C08_aspirate_unknown_well_partial.

Theorem C08_dispense_unknown_well_partial : forall s k wells vols label comps kw L,
  nth_error (st_lw s) k = Some L -> (exists w, In w (flattenF wells) /\ lw_index L w = None) ->
  exists L' e, dispense s k wells vols label comps kw = (set_lw s k L', Some e) /\
    (e = EOverflow \/ e = EReject) /\ lw_hist L' = lw_hist L /\ lw_geom L' = lw_geom L /\
    add_stops_at L wells vols comps L' e /\ forall i, (vol_at L i <= vol_at L' i)%Q.
Proof. exact dispense_unknown_well. Qed.
Print Assumptions C08_dispense_unknown_well_partial.

Theorem C08_evo_aspirate_unknown_well_partial : forall s k a label L,
  nth_error (st_lw s) k = Some L -> (exists w, In w (flattenF (c_wells a)) /\ lw_index L w = None) ->
  exists L' e, evo_aspirate s k a label = (set_lw s k L', Some e) /\
    (e = EUnderflow \/ e = EReject) /\ lw_hist L' = lw_hist L /\ lw_geom L' = lw_geom L /\
    remove_stops_at L (c_wells a) (evo_vols (c_volume a)) L' e /\ forall i, (vol_at L' i <= vol_at L i)%Q.
Proof. exact evo_aspirate_unknown_well. Qed.
Print Assumptions C08_evo_aspirate_unknown_well_partial.

Theorem C08_evo_dispense_unknown_well_partial : forall s k a label comps L,
  nth_error (st_lw s) k = Some L -> (exists w, In w (flattenF (c_wells a)) /\ lw_index L w = None) ->
  exists L' e, evo_dispense s k a label comps = (set_lw s k L', Some e) /\
    (e = EOverflow \/ e = EReject) /\ lw_hist L' = lw_hist L /\ lw_geom L' = lw_geom L /\
    add_stops_at L (c_wells a) (evo_vols (c_volume a)) comps L' e /\
    forall i, (vol_at L i <= vol_at L' i)%Q.
Proof. exact evo_dispense_unknown_well. Qed.
Print Assumptions C08_evo_dispense_unknown_well_partial.

(** if the FIRST named id is unknown the whole state is unchanged *)
Theorem C08_aspirate_unknown_first : forall s k wells vols label kw L w rest,
  nth_error (st_lw s) k = Some L -> flattenF wells = w :: rest -> lw_index L w = None ->
  aspirate s k wells vols label kw = (s, Some EReject).
Proof. exact aspirate_unknown_first. Qed.
Print Assumptions C08_aspirate_unknown_first.

Theorem C08_dispense_unknown_first : forall s k wells vols label comps kw L w rest,
  nth_error (st_lw s) k = Some L -> flattenF wells = w :: rest -> lw_index L w = None ->
  dispense s k wells vols label comps kw = (s, Some EReject).
Proof. exact dispense_unknown_first. Qed.
Print Assumptions C08_dispense_unknown_first.

Theorem C08_evo_aspirate_unknown_first : forall s k a label L w rest,
  nth_error (st_lw s) k = Some L -> flattenF (c_wells a) = w :: rest -> lw_index L w = None ->
  evo_aspirate s k a label = (s, Some EReject).
Proof. exact evo_aspirate_unknown_first. Qed.
Print Assumptions C08_evo_aspirate_unknown_first.

Theorem C08_evo_dispense_unknown_first : forall s k a label comps L w rest,
  nth_error (st_lw s) k = Some L -> flattenF (c_wells a) = w :: rest -> lw_index L w = None ->
  evo_dispense s k a label comps = (s, Some EReject).
Proof. exact evo_dispense_unknown_first. Qed.
Print Assumptions C08_evo_dispense_unknown_first.

(** [transfer] and [distribute] check all ids before any effect (fixes F15 / F17): an unknown source or
    destination id leaves the WHOLE state unchanged - records, histories and all volumes *)
Theorem C08_transfer_unknown_well : forall s ks kd swells dwells vols label ws pb kw Ls Ld,
  nth_error (st_lw s) ks = Some Ls -> nth_error (st_lw s) kd = Some Ld ->
  (exists x, In x (flattenF swells) /\ lw_index Ls x = None) \/
  (exists x, In x (flattenF dwells) /\ lw_index Ld x = None) ->
  exists e, transfer s ks swells kd dwells vols label ws pb kw = (s, Some e) /\ (e = EReject \/ e = ECompat).
Proof. exact transfer_unknown_well. Qed.
Print Assumptions C08_transfer_unknown_well.

Theorem C08_distribute_unknown_well : forall s ks kd dwells a Ld,
  nth_error (st_lw s) kd = Some Ld -> (exists w, In w (flattenF dwells) /\ lw_index Ld w = None) ->
  exists e, distribute s ks kd dwells a = (s, Some e) /\ record_error e.
Proof. exact distribute_unknown_well. Qed.
Print Assumptions C08_distribute_unknown_well.

(** the source of [distribute] is named by its column: a column the trough does not have is refused likewise *)
Theorem C08_distribute_bad_column : forall s ks kd dwells a Ls,
  nth_error (st_lw s) ks = Some Ls -> g_cols (lw_geom Ls) <= Z.to_nat (d_source_column a) ->
  exists e, distribute s ks kd dwells a = (s, Some e) /\ record_error e.
Proof. exact distribute_bad_column. Qed.
Print Assumptions C08_distribute_bad_column.

Example C08_example :
  evo_position (trough 4 2) "C02" = Ok 7 /\ fluent_position (trough 4 2) "C02" = Ok 2 /\
  evo_position (plate 8 12) "H12" = Ok 96 /\ well_index (plate 8 12) "A1" = None.
Proof. vm_compute. repeat split. Qed.

Example C08_example_ids :
  well_id 7 11 = "H12"%string /\ well_id 2 99 = "C100"%string /\ id_rc "C100" = Some (2, 99) /\
  id_rc "A1" = None /\ id_rc "A001" = None /\ parse_id "C100" = Some ("C"%string, 100%N) /\
  n_row_ids (plate 8 12) = 8 /\ n_row_ids (trough 4 2) = 4.
Proof. vm_compute. repeat split. Qed.

(* ------------------------------------------------------------------ non-vacuity, unknown ids *)

(** "Z09" is not a well of the 2 x 3 plate [ex_plate] although both position functions of an 8 x 12 plate
    would accept "A1": the guard is the index table *)
Definition C08_ex_state : state :=
  {| st_lw := [ex_trough; ex_plate]; st_wl := init_wl Evo 950 true false |}.

Definition C08_obs (r : state * option err) : list (list Q) * option err * nat * list nat :=
  (map lw_vols (st_lw (fst r)), snd r, length (w_recs (st_wl (fst r))),
   map (fun L => length (lw_hist L)) (st_lw (fst r))).

Example C08_example_unknown :
  lw_index ex_plate "Z09" = None /\ lw_index ex_plate "A1" = None /\ lw_index ex_plate "B03" = Some 5 /\
  (* aspirate: A01 has been charged before Z09 is looked up; no record, no history entry *)
  C08_obs (aspirate C08_ex_state 1 (A1 ["A01"; "Z09"]%string) (A0 (XQ 5)) (Some "x"%string) kw_default)
  = ([[20000; 5000]; [45; 50; 50; 50; 50; 50]]%Q, Some EReject, 0, [1; 1]) /\
  (* unknown id first: nothing at all *)
  aspirate C08_ex_state 1 (A1 ["Z09"; "A01"]%string) (A0 (XQ 5)) (Some "x"%string) kw_default
  = (C08_ex_state, Some EReject) /\
  C08_obs (dispense C08_ex_state 1 (A1 ["A01"; "Z09"]%string) (A0 (XQ 5)) None None kw_default)
  = ([[20000; 5000]; [55; 50; 50; 50; 50; 50]]%Q, Some EReject, 0, [1; 1]) /\
  (* transfer / distribute: the whole state is unchanged *)
  transfer C08_ex_state 0 (A0 "A01"%string) 1 (A1 ["A01"; "Z09"]%string) (A0 30%Q) None SFlush "auto"%string
           kw_default = (C08_ex_state, Some EReject) /\
  distribute C08_ex_state 0 1 (A1 ["A02"; "Z02"]%string)
    {| d_source_column := 0; d_volume := RVInt 7; d_diti_reuse := 1; d_multi_disp := 1;
       d_liquid_class := PStr "W"; d_label := None; d_direction := "left_to_right"%string;
       d_src_id := PStr ""; d_src_type := PStr ""; d_dst_id := PStr ""; d_dst_type := PStr "" |}
  = (C08_ex_state, Some EReject).
Proof. vm_compute. repeat split; reflexivity. Qed.

Example C08_example_colmajor :
  flattenF (A2 (make_well_array 2 3)) = ["A01"; "B01"; "A02"; "B02"; "A03"; "B03"]%string /\
  pos_of 2 1 2 = 6 /\ evo_position (plate 2 3) "B03" = Ok 6.
Proof. vm_compute. repeat split; reflexivity. Qed.
