(** C08 — Well numbering is column-major, 1-based, and device-specific for troughs.
    Statements only; proofs in Proofs/WellsProofs.v. *)
From Robo Require Import Prelude Str Wells WellsProofs.

Definition plate (R C : nat) : geom := {| g_rows := R; g_cols := C; g_vrows := None |}.
Definition trough (V C : nat) : geom := {| g_rows := 1; g_cols := C; g_vrows := Some V |}.

(** ids are parsed back: the regex of get_well_position applied to the id the labware generates *)
Theorem C08_parse_id : forall r c, r < 26 ->
  parse_id (well_id r c) = Some (String (row_letter r) EmptyString, N.of_nat (c + 1)).
Proof. exact parse_id_well_id. Qed.
Print Assumptions C08_parse_id.

(** plates: 1 + column * rows + row on both devices, for every geometry and every well *)
Theorem C08_plate : forall R C r c, 1 <= R <= 26 -> r < R -> c < C ->
  evo_position (plate R C) (well_id r c) = Ok (1 + c * R + r) /\
  fluent_position (plate R C) (well_id r c) = Ok (1 + c * R + r) /\
  positions_attr (plate R C) (well_id r c) = Some (1 + c * R + r) /\
  well_index (plate R C) (well_id r c) = Some (r, c).
Proof. exact plate_positions. Qed.
Print Assumptions C08_plate.

(** troughs: EVO counts the virtual rows, Fluent numbers the columns; every virtual row of a column is
    the same real well *)
Theorem C08_trough : forall V C r c, 1 <= V <= 26 -> r < V -> c < C ->
  evo_position (trough V C) (well_id r c) = Ok (1 + c * V + r) /\
  fluent_position (trough V C) (well_id r c) = Ok (1 + c) /\
  positions_attr (trough V C) (well_id r c) = Some (1 + c * V + r) /\
  well_index (trough V C) (well_id r c) = Some (0, c).
Proof. exact trough_positions. Qed.
Print Assumptions C08_trough.

(** the numbering is a bijection between (row, column) and 1..R*C, with explicit inverse *)
Theorem C08_bijection : forall R C, 0 < R ->
  (forall r c, r < R -> c < C -> 1 <= pos_of R r c <= R * C) /\
  (forall r c, r < R -> ((pos_of R r c - 1) mod R, (pos_of R r c - 1) / R) = (r, c)) /\
  (forall p, 1 <= p <= R * C ->
     (p - 1) mod R < R /\ (p - 1) / R < C /\ pos_of R ((p - 1) mod R) ((p - 1) / R) = p).
Proof. exact pos_of_bijection. Qed.
Print Assumptions C08_bijection.

(** ids determine (row, column): the id map is injective *)
Theorem C08_id_injective : forall r c r' c', r < 26 -> r' < 26 ->
  well_id r c = well_id r' c' -> r = r' /\ c = c'.
Proof. exact well_id_injective. Qed.
Print Assumptions C08_id_injective.

(** the canonical-id decomposition used by [indices] / [positions] inverts the id map, and accepts
    nothing but canonical ids ("A1", "a01", "A001" are not keys) *)
Theorem C08_id_rc : forall r c, r < 26 -> id_rc (well_id r c) = Some (r, c).
Proof. exact id_rc_well_id. Qed.
Print Assumptions C08_id_rc.

Theorem C08_id_rc_inv : forall s r c, id_rc s = Some (r, c) -> s = well_id r c /\ r < 26.
Proof. exact id_rc_inv. Qed.
Print Assumptions C08_id_rc_inv.

(** the [wells] table holds exactly these ids, and [indices] knows exactly the ids of the table *)
Theorem C08_tables : forall g r c, r < n_row_ids g -> c < g_cols g ->
  nth c (nth r (wells_table g) []) EmptyString = well_id r c.
Proof. exact wells_table_nth. Qed.
Print Assumptions C08_tables.

Theorem C08_index_domain : forall g s rc, well_index g s = Some rc ->
  exists r c, r < n_row_ids g /\ c < g_cols g /\ s = well_id r c /\
              rc = (match g_vrows g with Some _ => 0 | None => r end, c).
Proof. exact well_index_domain. Qed.
Print Assumptions C08_index_domain.

(** [indices] is defined exactly on the entries of the [wells] table *)
Theorem C08_index_defined_iff : forall g s,
  (exists rc, well_index g s = Some rc) <->
  (exists r c, r < n_row_ids g /\ c < g_cols g /\ s = well_id r c).
Proof. exact well_index_defined_iff. Qed.
Print Assumptions C08_index_defined_iff.

(** make_well_array / make_well_index_dict agree with the labware tables *)
Theorem C08_helpers : forall R C,
  make_well_array R C = wells_table (plate R C) /\
  forall s, make_well_index R C s = well_index (plate R C) s.
Proof. exact helpers_agree. Qed.
Print Assumptions C08_helpers.

Example C08_example :
  evo_position (trough 4 2) "C02" = Ok 7 /\ fluent_position (trough 4 2) "C02" = Ok 2 /\
  evo_position (plate 8 12) "H12" = Ok 96 /\ well_index (plate 8 12) "A1" = None.
Proof. vm_compute. repeat split. Qed.

Example C08_example_ids :
  well_id 7 11 = "H12"%string /\ well_id 2 99 = "C100"%string /\ id_rc "C100" = Some (2, 99) /\
  id_rc "A1" = None /\ id_rc "A001" = None /\ parse_id "C100" = Some ("C"%string, 100%N) /\
  n_row_ids (plate 8 12) = 8 /\ n_row_ids (trough 4 2) = 4.
Proof. vm_compute. repeat split. Qed.
