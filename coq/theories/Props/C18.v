(** C18 — partition_by_column returns the input triples regrouped by column of the partitioning side,
    groups in ascending column order, rows ascending within a group; optimize_partition_by picks the
    side.  Statements only; proofs live in Proofs/PartitionProofs.v. *)
From Robo Require Import Prelude Str Partition PartitionProofs.
From Coq Require Import Sorted Permutation.

(** strict string order (Python [<] on str) *)
Definition str_below (a b : string) : Prop := str_leb a b = true /\ a <> b.

(** column of a (non-empty) group, read off its first triple *)
Definition first_col (m : pmode) (g : list triple) : string :=
  match g with t :: _ => str_tail (pkey m t) | [] => EmptyString end.

(** [str_leb] is a total order on strings, so "sorted w.r.t. [str_leb]" below means what it says *)
Theorem C18_string_order :
  (forall a, str_leb a a = true) /\
  (forall a b c, str_leb a b = true -> str_leb b c = true -> str_leb a c = true) /\
  (forall a b, str_leb a b = true \/ str_leb b a = true) /\
  (forall a b, str_leb a b = true -> str_leb b a = true -> a = b).
Proof. exact (conj str_leb_refl (conj str_leb_trans (conj str_leb_total str_leb_antisym))). Qed.
Print Assumptions C18_string_order.

(** the groups together are exactly the input triples (multiset), no triple torn apart *)
Theorem C18_perm : forall (m : pmode) (l : list triple),
  Permutation (concat (partition_by_column m l)) l.
Proof. exact partition_by_column_perm. Qed.
Print Assumptions C18_perm.

(** no group is empty and all triples of a group have the same column suffix on the partitioning side *)
Theorem C18_column : forall (m : pmode) (l : list triple) (g : list triple),
  In g (partition_by_column m l) ->
  g <> [] /\
  forall t t', In t g -> In t' g -> str_tail (pkey m t) = str_tail (pkey m t').
Proof. exact partition_by_column_column. Qed.
Print Assumptions C18_column.

(** a group holds every input triple of its column *)
Theorem C18_complete : forall (m : pmode) (l : list triple) (g : list triple) (t t' : triple),
  In g (partition_by_column m l) -> In t g -> In t' l ->
  str_tail (pkey m t') = str_tail (pkey m t) -> In t' g.
Proof. exact partition_by_column_complete. Qed.
Print Assumptions C18_complete.

(** groups are in strictly ascending column order: every triple of an earlier group has a strictly
    smaller column key than every triple of any later group (so columns are pairwise distinct) *)
Theorem C18_group_order : forall (m : pmode) (l : list triple),
  StronglySorted
    (fun g g' => forall t t', In t g -> In t' g' ->
                   str_below (str_tail (pkey m t)) (str_tail (pkey m t')))
    (partition_by_column m l).
Proof. exact partition_by_column_group_order. Qed.
Print Assumptions C18_group_order.

(** the same, on the list of group columns (groups are non-empty by C18_column) *)
Theorem C18_group_order_keys : forall (m : pmode) (l : list triple),
  StronglySorted str_below (map (first_col m) (partition_by_column m l)).
Proof. exact partition_by_column_group_cols. Qed.
Print Assumptions C18_group_order_keys.

(** within a group the ids of the partitioning side ascend *)
Theorem C18_row_order : forall (m : pmode) (l : list triple) (g : list triple),
  In g (partition_by_column m l) ->
  StronglySorted (fun t t' => str_leb (pkey m t) (pkey m t') = true) g.
Proof. exact partition_by_column_row_order. Qed.
Print Assumptions C18_row_order.

(** STATEMENT ABOUT THE MODEL ONLY - not a claim about the library, and not part of property C18.
    The model sorts each column group with a stable sort, so the triples of a group that share an id are the
    input triples with that id in input order. The library sorts the group with [numpy.argsort] with its
    default [kind] (quicksort / introsort), which is NOT stable for groups of more than 16 elements: the order
    among triples with EQUAL ids of the partitioning side is unspecified there (20 triples alternating
    B01 / A01 with volumes 0..19: model volumes [1;3;..;19;0;2;..;18], library (numpy 2.5)
    [9;17;15;13;11;7;19;5;3;1;8;18;10;4;12;14;2;16;6;0]). The correspondence harness drops the cases in which
    numpy's default argsort and a stable argsort differ on some group (suite pcol, "argsort-ties"), so this
    theorem is never compared with the code on such inputs.
    What the property claims - the groups together are the input as a multiset (C18_perm), one column per
    group and every triple of that column in it (C18_column, C18_complete), ascending columns
    (C18_group_order, C18_group_order_keys), ascending rows within a group (C18_row_order) - are the other
    theorems of this file; none of them depends on this one, and all of them hold for any order among
    triples with equal ids. *)
Theorem C18_stable_model : forall (m : pmode) (l : list triple) (g : list triple) (t : triple),
  In g (partition_by_column m l) -> In t g ->
  filter (fun x => String.eqb (pkey m x) (pkey m t)) g =
  filter (fun x => String.eqb (pkey m x) (pkey m t)) l.
Proof. exact partition_by_column_stable. Qed.
Print Assumptions C18_stable_model.

(** on generated ids with two-digit column suffix (columns 1..99) the string order of the suffixes is
    the numeric order of the columns, equal suffix means equal column, and within a column the
    string order of the ids is the order of the rows *)
Theorem C18_numeric : forall r r' c c', c < 99 -> c' < 99 ->
  str_leb (str_tail (well_id r c)) (str_tail (well_id r' c')) = (c <=? c') /\
  (str_tail (well_id r c) = str_tail (well_id r' c') <-> c = c') /\
  (r < 26 -> r' < 26 -> str_leb (well_id r c) (well_id r' c) = (r <=? r')).
Proof.
  exact (fun r r' c c' Hc Hc' =>
           conj (well_id_column_order r c r' c' Hc Hc')
                (conj (well_id_column_eq r c r' c' Hc Hc') (well_id_row_order r r' c))).
Qed.
Print Assumptions C18_numeric.

(** choice of the side *)
Theorem C18_auto : forall (src_trough dst_trough : bool),
  optimize_partition_by src_trough dst_trough "auto"
    = Ok (if src_trough && negb dst_trough then ByDestination else BySource) /\
  optimize_partition_by src_trough dst_trough "source" = Ok BySource /\
  optimize_partition_by src_trough dst_trough "destination" = Ok ByDestination /\
  forall mode, mode <> "auto"%string -> mode <> "source"%string -> mode <> "destination"%string ->
    optimize_partition_by src_trough dst_trough mode = Err EValue.
Proof.
  exact (fun s d => conj (optimize_auto s d) (conj (optimize_source s d)
                      (conj (optimize_destination s d) (optimize_other s d)))).
Qed.
Print Assumptions C18_auto.

(** non-vacuity: three columns, unsorted input, a repeated source id (their order: model only, see C18_stable_model) *)
Example C18_example :
  partition_by_column BySource
    [("B02", "A01", 1%Q); ("A10", "A02", 2%Q); ("A01", "B01", 3%Q); ("A02", "C01", 4%Q);
     ("B01", "D01", 5%Q); ("A01", "E01", 6%Q)]%string
  = [[("A01", "B01", 3%Q); ("A01", "E01", 6%Q); ("B01", "D01", 5%Q)];
     [("A02", "C01", 4%Q); ("B02", "A01", 1%Q)];
     [("A10", "A02", 2%Q)]]%string /\
  partition_by_column ByDestination
    [("A01", "B02", 1%Q); ("A01", "A02", 2%Q); ("A01", "A01", 3%Q)]%string
  = [[("A01", "A01", 3%Q)]; [("A01", "A02", 2%Q); ("A01", "B02", 1%Q)]]%string /\
  optimize_partition_by true false "auto" = Ok ByDestination /\
  optimize_partition_by true true "auto" = Ok BySource /\
  optimize_partition_by true false "column" = Err EValue.
Proof. vm_compute. repeat split. Qed.

(** the bound in C18_numeric is sharp: column 100 sorts before column 11 *)
Example C18_numeric_limit :
  str_leb (str_tail (well_id 0 99)) (str_tail (well_id 0 10)) = true /\
  str_tail (well_id 0 99) = "100"%string /\ str_tail (well_id 0 10) = "11"%string.
Proof. vm_compute. repeat split. Qed.
