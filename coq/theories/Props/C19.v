(** C19 — get_trough_wells cycles through the given wells and returns exactly n.
    Statements only; proofs live in Proofs/UtilsProofs.v. *)
From Robo Require Import Prelude Utils UtilsProofs.

(** For every n >= 0 and every non-empty well collection (scalar, 1-D or 2-D, read column-major):
    the call succeeds, returns exactly n ids, and the i-th is the (i mod len)-th given well. *)
Theorem C19_cycle : forall (n : nat) (ws : arr string),
  flattenF ws <> [] ->
  exists out, get_trough_wells (PInt (Z.of_nat n)) ws = Ok out /\
    length out = n /\
    forall i d, i < n -> nth i out d = nth (i mod length (flattenF ws)) (flattenF ws) d.
Proof. exact get_trough_wells_spec. Qed.
Print Assumptions C19_cycle.

Theorem C19_zero : forall ws, flattenF ws <> [] -> get_trough_wells (PInt 0) ws = Ok [].
Proof. exact get_trough_wells_zero. Qed.
Print Assumptions C19_zero.

(** negative n, non-integer n, or an empty well list: rejected *)
Theorem C19_reject : forall n ws,
  (match n with PInt z => (z < 0)%Z | PNotInt => True end) \/ flattenF ws = [] ->
  exists e, get_trough_wells n ws = Err e.
Proof. exact get_trough_wells_reject. Qed.
Print Assumptions C19_reject.

(** non-vacuity: a 2-D column-major argument with wrap-around *)
Example C19_example :
  get_trough_wells (PInt 5) (A2 [["A01"; "A02"]; ["B01"; "B02"]]%string)
  = Ok ["A01"; "B01"; "A02"; "B02"; "A01"]%string.
Proof. vm_compute. reflexivity. Qed.
