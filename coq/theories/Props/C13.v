(** C13 — the EVOware script commands [B;Aspirate(...)] / [B;Dispense(...)] / [B;Wash(...)].
    For every accepted evo_aspirate / evo_dispense call the emitted command - decoded with EVOware's
    rule that the selected tips in ascending order serve the selected wells in ascending row order -
    changes each well by exactly the volume (to two decimals) that the Labware tracking applied to it,
    and names the given liquid class, arm and grid/site (site emitted zero-based).  Calls that cannot be
    expressed as such a command are rejected, and evo_wash emits its parameters in the documented order
    after range-checking each of them.
    Statements only; proofs live in Proofs/EvoCmdProofs.v and Proofs/TextExtraProofs.v.

    The chain proved is  emitted TEXT -> [parse_cmd] (independent textual parser, Spec/CmdParse.v: cuts at
    the first "(", splits at ",", at the double quote and at ")", reads numbers with [parse_decN]; it never
    calls a printer) -> structured command [cmd] -> [decode_effect] (EVOware's pairing rule) = the volume
    change applied by the Labware tracking: C13_parse, C13_agree_text, C13_agree_aspirate_text,
    C13_agree_dispense_text, C13_wash_parse (review item M4).  The older statements via the printer
    ([text = cmd_text (c_volume a) c], i.e. [render_cmd c] or, for an all-int volume list, [render_cmd_int c];
    C13_render, C13_agree, ...) are kept; [render_cmd] and [parse_cmd] are inverse on well-formed commands
    (C13_parse_render), and [parse_cmd] reads the whole-number spelling as well (C13_parse_render_int).
    Hypothesis of the text-level theorems: the liquid class contains neither a comma nor a double quote
    ([tx_lc_clean]).  The library and the model emit the liquid class unescaped and only refuse ";", so
    without this hypothesis the text does not determine the command (C13_example_lc_unparsable).

    Definitions used.
    Spec/CmdDecode.v (independent of the emitter): the structured command [cmd]
      ([cm_kind], [cm_mask], [cm_lc], [cm_slots] = eight optional volumes in hundredths, [cm_grid],
      [cm_site] zero-based as emitted, [cm_sel] selection string, [cm_arm]), its printer [render_cmd]
      (fields in the documented order), and the decoder [decode_effect rows cols c]: the tips are the
      set bits of the mask in ascending order ([mask_tips]), the wells are read from the selection
      string with [decode_selection] of Spec/SelDecode.v column by column in ascending row order
      ([selected_wells]) and must lie in one column; k-th tip serves k-th well with the volume of the
      tip's own slot ([pair_up]); result [(row, column, hundredths # 100)] per well.
    The volume argument [cmdvol] is a scalar ([CVScalar]), a list with at least one float or non-number
    ([CVList]), a list consisting ONLY of Python ints ([CVIntList l], l : list Z) or anything else ([CVOther]).
    An all-int list is checked and tracked exactly like the float list of the same numbers
    ([int_pvols l] = the list of [PV (XQ (inject_Z z))]), but numpy keeps it integer, so the text shows the
    whole numbers as plain integers ("5" where the float list shows "5.0"): Spec/CmdDecode.v has the second
    printer [render_cmd_int] for this spelling (a used slot of h hundredths is written as h / 100), and the
    textual parser reads "5" and "5.0" alike as 500 hundredths (C13_parse_render_int, C13_int_list).
    Proofs/EvoCmdProofs.v:
      [evo_command_struct]  the structured command that [evo_command] renders (same checks, same errors);
      [cmd_text v c]        the text of the structured command [c] for the volume argument [v]:
                            [render_cmd_int c] if [v] is a [CVIntList], [render_cmd c] otherwise;
      [slot_whole o]        the slot [o] is unused or holds a multiple of 100 hundredths;
      [cmd_vols v m n]      the validated volume list of a command for [n] wells;
      [track_wells a], [track_vols a]  the two components of
                            [wells_vols (c_wells a) (evo_vols (c_volume a))], i.e. the lists handed to
                            [Labware.remove] / [add];
      [effect_of rcs qs]    [(row, column, round2c q # 100)] for the zipped wells and volumes;
      [asc_nat]             strictly ascending list of naturals (bool); [tipval b] = 2^b as an integer;
      [real_index g (r, c)] flat index of the real well (troughs: one real row);
      [bad_volume x]        None / not a number / NaN / +-inf / negative;
      [wash_vol_text v s]   [v] is an int 0..100 printed as is, or a float 0..100 printed to one decimal.
    Spec/CmdParse.v: [parse_cmd : string -> option cmd], [parse_wash : string -> option wcmd] (record of the
      sixteen wash parameters, volumes in tenths of a millilitre).
    Proofs/TextExtraProofs.v:
      [tx_lc_clean t]       [t] is not a str, or a str without "," and without the double quote;
      [tx_cmd_valid c]      kind is Aspirate or Dispense; mask, grid, site, arm are not negative; liquid class
                            and selection string contain no "," and no double quote; eight slots, none negative;
      [tx_wash_vol_val v t] [t] tenths stand for the wash volume [v]: 10 * z for an int z, [round1c q] for a
                            float q. *)
From Robo Require Import Prelude Str Wells Utils Labware Tips Records Partition Params Worklist EvoCmd
  Invariants SelDecode CmdDecode CmdParse LabwareProofs EvoCmdProofs TextExtraProofs.

(* ------------------------------------------------------------------ C13_reject *)

(** wells / tips that do not pair up one-to-one in ascending order, or wells of several columns *)
Theorem C13_reject_shape : forall kind R C a m,
  let wells := flattenF (c_wells a) in
  let r := evo_command kind R C a m in
  (length wells <> length (c_tips a) -> r = Err EReject) /\
  (strictly_ascending_str wells = false -> r = Err EReject) /\
  (~ NoDup wells -> r = Err EReject) /\
  (forall l1 x y l2, wells = l1 ++ x :: y :: l2 -> str_leb y x = true -> r = Err EReject) /\
  ((exists x, In x (c_tips a) /\ elem_bit x = None) -> exists e, r = Err e) /\
  (In TAny (c_tips a) \/ In TOther (c_tips a) -> exists e, r = Err e) /\
  (forall bs, elems_bits (c_tips a) = Some bs -> asc_nat bs = false -> exists e, r = Err e) /\
  (2 <= selected_columns R C wells -> exists e, r = Err e) /\
  (forall w1 w2 rc1 rc2, In w1 wells -> In w2 wells ->
     make_well_index R C w1 = Some rc1 -> make_well_index R C w2 = Some rc2 -> snd rc1 <> snd rc2 ->
     exists e, r = Err e) /\
  ((exists w, In w wells /\ make_well_index R C w = None) -> exists e, r = Err e).
Proof. exact reject_shape. Qed.
Print Assumptions C13_reject_shape.

(** grid outside 1..67, site outside 1..128, arm not 0/1, liquid class not a str or with ";" *)
Theorem C13_reject_ranges : forall kind R C a m,
  let r := evo_command kind R C a m in
  (c_grid a = PNotInt \/ (exists z, c_grid a = PInt z /\ (z < 1 \/ 67 < z)%Z) -> r = Err EReject) /\
  (c_site a = PNotInt \/ (exists z, c_site a = PInt z /\ (z < 1 \/ 128 < z)%Z) -> r = Err EReject) /\
  (c_arm a <> 0%Z -> c_arm a <> 1%Z -> exists e, r = Err e) /\
  (c_liquid_class a = PNotStr \/ (exists s, c_liquid_class a = PStr s /\ contains_char semi s = true) ->
   exists e, r = Err e).
Proof. exact reject_ranges. Qed.
Print Assumptions C13_reject_ranges.

(** volumes: negative / NaN / inf / missing, above max_volume, per-well list of the wrong length *)
Theorem C13_reject_volumes : forall kind R C a m,
  let wells := flattenF (c_wells a) in
  let r := evo_command kind R C a m in
  (forall x, c_volume a = CVScalar x -> bad_volume x -> r = Err EReject) /\
  (forall q, c_volume a = CVScalar (PV (XQ q)) -> (0 <= q)%Q -> (q <= max_tecan_volume)%Q -> (m < q)%Q ->
     r = Err EInvalidOp \/ r = Err EReject) /\
  (forall l x, c_volume a = CVList l -> In x l -> bad_volume x -> exists e, r = Err e) /\
  (forall l q, c_volume a = CVList l -> In (PV (XQ q)) l -> (m < q)%Q -> exists e, r = Err e) /\
  (forall l, c_volume a = CVList l -> length l <> length wells -> exists e, r = Err e) /\
  (forall l z, c_volume a = CVIntList l -> In z l -> (z < 0)%Z -> exists e, r = Err e) /\
  (forall l z, c_volume a = CVIntList l -> In z l -> (m < inject_Z z)%Q -> exists e, r = Err e) /\
  (forall l, c_volume a = CVIntList l -> length l <> length wells -> exists e, r = Err e) /\
  (c_volume a = CVOther -> exists e, r = Err e) /\
  (forall e g s, length wells = length (c_tips a) -> strictly_ascending_str wells = true ->
     c_grid a = PInt g -> (1 <= g <= 67)%Z -> c_site a = PInt s -> (1 <= s <= 128)%Z ->
     cmd_vols (c_volume a) m (length wells) = Err e -> r = Err e).
Proof. exact reject_volumes. Qed.
Print Assumptions C13_reject_volumes.

(** the only error other than a plain rejection is InvalidOperation for a volume above max_volume *)
Theorem C13_reject_errors : forall kind R C a m e,
  evo_command kind R C a m = Err e ->
  e = EReject \/
  (e = EInvalidOp /\ exists q, (0 <= q)%Q /\ (m < q)%Q /\
     (c_volume a = CVScalar (PV (XQ q)) \/ (exists l, c_volume a = CVList l /\ In (PV (XQ q)) l) \/
      (exists l z, c_volume a = CVIntList l /\ In z l /\ q = inject_Z z))).
Proof. exact errors_statement. Qed.
Print Assumptions C13_reject_errors.

(** worklist level: a failing call appends no command (label comments at most); a command refused by
    [evo_command] fails the call with that error *)
Theorem C13_reject_worklist :
  (forall s k a label s' e, evo_aspirate s k a label = (s', Some e) ->
     exists cs, w_recs (st_wl s') = w_recs (st_wl s) ++ map RC cs) /\
  (forall s k a label comps s' e, evo_dispense s k a label comps = (s', Some e) ->
     exists cs, w_recs (st_wl s') = w_recs (st_wl s) ++ map RC cs) /\
  (forall s k a label L L' w e,
     nth_error (st_lw s) k = Some L ->
     remove L (A1 (track_wells a)) (A1 (track_vols a)) label = (L', None) ->
     comment (st_wl s) label = (w, None) ->
     evo_command "Aspirate" (n_row_ids (lw_geom L)) (g_cols (lw_geom L)) a (w_max (st_wl s)) = Err e ->
     evo_aspirate s k a label = ({| st_lw := upd (st_lw s) k L'; st_wl := w |}, Some e)).
Proof. exact reject_worklist. Qed.
Print Assumptions C13_reject_worklist.

(* ------------------------------------------------------------------ C13_wash *)

Theorem C13_wash : forall a text,
  evo_wash_cmd a = Ok text <->
  exists bs wg wsite cg csite wv wd cv cd ag ags rs fw lv,
    elems_bits (wa_tips a) = Some bs /\
    (wa_waste_grid a = PInt wg /\ (1 <= wg <= 67)%Z) /\
    (wa_waste_site a = PInt wsite /\ (1 <= wsite <= 128)%Z) /\
    (wa_cleaner_grid a = PInt cg /\ (1 <= cg <= 67)%Z) /\
    (wa_cleaner_site a = PInt csite /\ (1 <= csite <= 128)%Z) /\
    (wa_arm a = 0%Z \/ wa_arm a = 1%Z) /\
    wash_vol_text (wa_waste_vol a) wv /\
    (wa_waste_delay a = PInt wd /\ (0 <= wd <= 1000)%Z) /\
    wash_vol_text (wa_cleaner_vol a) cv /\
    (wa_cleaner_delay a = PInt cd /\ (0 <= cd <= 1000)%Z) /\
    (wa_airgap a = PInt ag /\ (0 <= ag <= 100)%Z) /\
    (wa_airgap_speed a = PInt ags /\ (1 <= ags <= 1000)%Z) /\
    (wa_retract_speed a = PInt rs /\ (1 <= rs <= 100)%Z) /\
    (wa_fastwash a = PInt fw /\ (0 <= fw <= 1)%Z) /\
    (wa_low_volume a = PInt lv /\ (0 <= lv <= 1)%Z) /\
    text = ("B;Wash(" ++ decZ (Z.of_N (mask_or bs)) ++ "," ++ decZ wg ++ "," ++ decZ (wsite - 1)
            ++ "," ++ decZ cg ++ "," ++ decZ (csite - 1) ++ ",""" ++ wv ++ """," ++ decZ wd
            ++ ",""" ++ cv ++ """," ++ decZ cd ++ "," ++ decZ ag ++ "," ++ decZ ags ++ ","
            ++ decZ rs ++ "," ++ decZ fw ++ "," ++ decZ lv ++ ",1000," ++ decZ (wa_arm a) ++ ");")%string.
Proof. exact wash_statement. Qed.
Print Assumptions C13_wash.

(** the wash mask: the sum over the distinct tip values is the OR of the tip bits (duplicates count
    once); Tip.Any or any non-tip is refused; every refusal is a plain rejection *)
Theorem C13_wash_mask :
  (forall l bs, elems_bits l = Some bs ->
     wash_tip_values l = Some (map tipval bs) /\
     fold_right Z.add 0%Z (dedup_Z (map tipval bs)) = Z.of_N (mask_or bs)) /\
  (forall a, (exists x, In x (wa_tips a) /\ elem_bit x = None) -> evo_wash_cmd a = Err EReject) /\
  (forall a e, evo_wash_cmd a = Err e -> e = EReject).
Proof. exact wash_mask_statement. Qed.
Print Assumptions C13_wash_mask.

(** the wrapper appends exactly the command, or leaves the state untouched *)
Theorem C13_wash_worklist : forall s a s',
  (evo_wash s a = (s', None) <->
   exists text, evo_wash_cmd a = Ok text /\ s' = set_wl s (emit (st_wl s) [RCmd text])) /\
  (forall e, evo_wash s a = (s', Some e) <-> evo_wash_cmd a = Err e /\ s' = s).
Proof. exact wash_worklist_statement. Qed.
Print Assumptions C13_wash_worklist.

(* ------------------------------------------------------------------ C13_fields *)

(** the emitted text is the rendering of the structured command, for every input; same errors
    ([cmd_text v c] is [render_cmd c] unless [v] is an all-int list, and [render_cmd_int c] then) *)
Theorem C13_render : forall kind R C a m,
  evo_command kind R C a m =
  match evo_command_struct kind R C a m with Ok c => Ok (cmd_text (c_volume a) c) | Err e => Err e end.
Proof. exact evo_command_render. Qed.
Print Assumptions C13_render.

(** the structured command of an accepted call: kind, liquid class, arm, grid, site - 1; the mask is
    the sum = OR of the (strictly ascending, hence distinct) tip values; eight slots, slot i used
    exactly when tip i is given, i.e. when bit i of the mask is set *)
Theorem C13_fields : forall kind R C a m text,
  evo_command kind R C a m = Ok text ->
  exists c bs,
    evo_command_struct kind R C a m = Ok c /\ text = cmd_text (c_volume a) c /\
    elems_bits (c_tips a) = Some bs /\ asc_nat bs = true /\
    cm_kind c = kind /\
    c_liquid_class a = PStr (cm_lc c) /\
    cm_arm c = c_arm a /\
    c_grid a = PInt (cm_grid c) /\
    c_site a = PInt (cm_site c + 1) /\
    cm_mask c = Z.of_N (mask_or bs) /\
    cm_mask c = fold_right Z.add 0%Z (map tipval bs) /\
    (0 <= cm_mask c < 256)%Z /\
    length (cm_slots c) = 8 /\
    (forall i, i < 8 -> ((exists h, nth_error (cm_slots c) i = Some (Some h)) <-> In i bs)) /\
    (forall i, i < 8 -> ((exists h, nth_error (cm_slots c) i = Some (Some h)) <->
                         Z.testbit (cm_mask c) (Z.of_nat i) = true)).
Proof. exact fields_statement. Qed.
Print Assumptions C13_fields.

(** acceptance, exactly: [accepted R C a m grid site qs lc bs sl sel] (a record of Proofs/EvoCmdProofs.v)
    lists the checks - as many wells as tips; well ids strictly ascending; grid in 1..67; site in 1..128;
    [cmd_vols] accepts the volumes as [qs]; the liquid class is a str [lc] without ";"; the tips are valid
    with bit indices [bs], strictly ascending; arm 0 or 1; the slots [sl] can be filled; every well is known
    (selection bitmap [sel]); at most one selected column - and [the_cmd] is the structured command built
    from these values *)
Theorem C13_accept_iff : forall kind R C a m text,
  evo_command kind R C a m = Ok text <->
  exists grid site qs lc bs sl sel,
    accepted R C a m grid site qs lc bs sl sel /\
    text = cmd_text (c_volume a) (the_cmd kind R C a grid site lc bs sl sel).
Proof. exact evo_command_ok_iff. Qed.
Print Assumptions C13_accept_iff.

(* ------------------------------------------------------------------ C13_tracking *)

(** accepted evo_aspirate / evo_dispense: labware k was updated by [remove] / [add] on the
    (wells, volumes) of [wells_vols], all other labware are unchanged, and exactly one [RCmd] with the
    text of [evo_command] was appended after the label comment records *)
Theorem C13_tracking :
  (forall s k a label s', evo_aspirate s k a label = (s', None) ->
     exists L L' w text,
       nth_error (st_lw s) k = Some L /\
       remove L (A1 (track_wells a)) (A1 (track_vols a)) label = (L', None) /\
       comment (st_wl s) label = (w, None) /\
       evo_command "Aspirate" (n_row_ids (lw_geom L)) (g_cols (lw_geom L)) a (w_max (st_wl s)) = Ok text /\
       st_lw s' = upd (st_lw s) k L' /\
       st_wl s' = emit w [RCmd text]) /\
  (forall s k a label comps s', evo_dispense s k a label comps = (s', None) ->
     exists L L' w text,
       nth_error (st_lw s) k = Some L /\
       add L (A1 (track_wells a)) (A1 (track_vols a)) label comps = (L', None) /\
       comment (st_wl s) label = (w, None) /\
       evo_command "Dispense" (n_row_ids (lw_geom L)) (g_cols (lw_geom L)) a (w_max (st_wl s)) = Ok text /\
       st_lw s' = upd (st_lw s) k L' /\
       st_wl s' = emit w [RCmd text]) /\
  (forall (l : list labware) i j x, i <> j -> nth_error (upd l i x) j = nth_error l j) /\
  (forall w label w' e, comment w label = (w', e) ->
     w_max w' = w_max w /\ (exists cs, w_recs w' = w_recs w ++ map RC cs) /\ (e <> None -> w' = w)).
Proof. exact tracking_statement. Qed.
Print Assumptions C13_tracking.

(* ------------------------------------------------------------------ C13_single_column *)

(** ids known to the index are canonical; at most one selected column means one common column; and
    for ids of one column "strictly ascending ids" is "strictly ascending rows" *)
Theorem C13_single_column : forall R C ws rcs,
  map (make_well_index R C) ws = map Some rcs ->
  (ws = map (fun rc => well_id (fst rc) (snd rc)) rcs /\
   Forall (fun rc => fst rc < Nat.min 26 R /\ snd rc < C) rcs) /\
  (selected_columns R C ws <= 1 <-> exists c, forall rc, In rc rcs -> snd rc = c) /\
  (forall c, (forall rc, In rc rcs -> snd rc = c) ->
     (rcs <> [] -> selected_columns R C ws = 1) /\
     strictly_ascending_str ws = asc_nat (map fst rcs)).
Proof. exact single_column_statement. Qed.
Print Assumptions C13_single_column.

(* ------------------------------------------------------------------ C13_agree *)

(** the decoded command changes the i-th well (its (row, column) from [make_well_index]) by the i-th
    validated volume to two decimals; these volumes are exactly the ones handed to the tracking *)
Theorem C13_agree : forall kind n_rows n_cols a m text,
  n_rows <= 26 -> n_cols < 256 ->
  evo_command kind n_rows n_cols a m = Ok text ->
  exists c qs rcs,
    evo_command_struct kind n_rows n_cols a m = Ok c /\ text = cmd_text (c_volume a) c /\
    map (make_well_index n_rows n_cols) (flattenF (c_wells a)) = map Some rcs /\
    length qs = length rcs /\
    track_vols a = map XQ qs /\
    decode_effect n_rows n_cols c = Some (effect_of rcs qs).
Proof. exact evo_command_agree. Qed.
Print Assumptions C13_agree.

(** end to end on the worklist: the command appended by an accepted evo_aspirate decodes to wells
    [rcs] with volumes [qs] (two decimals), and the tracked labware lost exactly [qs] on those wells
    (C04 ledger: [delta] sums the events per real well) *)
Theorem C13_agree_aspirate : forall s k a label s' L,
  evo_aspirate s k a label = (s', None) -> nth_error (st_lw s) k = Some L -> wf_shape L ->
  g_cols (lw_geom L) < 256 ->
  exists L' w text c rcs qs,
    nth_error (st_lw s') k = Some L' /\ st_wl s' = emit w [RCmd text] /\
    text = cmd_text (c_volume a) c /\
    decode_effect (n_row_ids (lw_geom L)) (g_cols (lw_geom L)) c = Some (effect_of rcs qs) /\
    length qs = length rcs /\
    length (lw_vols L') = length (lw_vols L) /\
    forall j, (nth j (lw_vols L') 0 ==
               nth j (lw_vols L) 0 + delta (neg_events (zip (map (real_index (lw_geom L)) rcs) qs)) j)%Q.
Proof. exact evo_aspirate_ledger. Qed.
Print Assumptions C13_agree_aspirate.

Theorem C13_agree_dispense : forall s k a label comps s' L,
  evo_dispense s k a label comps = (s', None) -> nth_error (st_lw s) k = Some L -> wf_shape L ->
  g_cols (lw_geom L) < 256 ->
  exists L' w text c rcs qs,
    nth_error (st_lw s') k = Some L' /\ st_wl s' = emit w [RCmd text] /\
    text = cmd_text (c_volume a) c /\
    decode_effect (n_row_ids (lw_geom L)) (g_cols (lw_geom L)) c = Some (effect_of rcs qs) /\
    length qs = length rcs /\
    length (lw_vols L') = length (lw_vols L) /\
    forall j, (nth j (lw_vols L') 0 ==
               nth j (lw_vols L) 0 + delta (zip (map (real_index (lw_geom L)) rcs) qs) j)%Q.
Proof. exact evo_dispense_ledger. Qed.
Print Assumptions C13_agree_dispense.

(* ------------------------------------------------------------------ C13 on the text (M4) *)

(** the textual parser inverts the printer on well-formed commands ... *)
Theorem C13_parse_render : forall c, tx_cmd_valid c -> parse_cmd (render_cmd c) = Some c.
Proof. exact tx_parse_render_cmd. Qed.
Print Assumptions C13_parse_render.

(** ... and the whole-number spelling of a well-formed command whose used slots are whole numbers of
    microlitres: "5" is read as "5.0" *)
Theorem C13_parse_render_int : forall c, tx_cmd_valid c -> Forall slot_whole (cm_slots c) ->
  parse_cmd (render_cmd_int c) = Some c.
Proof. exact tx_parse_render_cmd_int. Qed.
Print Assumptions C13_parse_render_int.

(** ... so the printer is injective on them *)
Theorem C13_render_injective : forall c c', tx_cmd_valid c -> tx_cmd_valid c' ->
  render_cmd c = render_cmd c' -> c = c'.
Proof. exact tx_render_cmd_injective. Qed.
Print Assumptions C13_render_injective.

(** the text emitted for an accepted call parses to the structured command of the call *)
Theorem C13_parse : forall kind R C a m text,
  kind = "Aspirate"%string \/ kind = "Dispense"%string -> tx_lc_clean (c_liquid_class a) ->
  evo_command kind R C a m = Ok text ->
  exists c, parse_cmd text = Some c /\ evo_command_struct kind R C a m = Ok c.
Proof. exact tx_evo_command_parse. Qed.
Print Assumptions C13_parse.

(** per-tip volumes given as a list of Python ints [l]: the text is the whole-number spelling of the structured
    command of the call; every used slot is a multiple of 100 hundredths; this text and the float spelling
    [render_cmd c] parse to the same command [c]; [l] has one entry per well, each within 0 .. max_volume, and
    the tracking was handed exactly these numbers *)
Theorem C13_int_list : forall kind R C a m l text,
  kind = "Aspirate"%string \/ kind = "Dispense"%string -> tx_lc_clean (c_liquid_class a) ->
  c_volume a = CVIntList l ->
  evo_command kind R C a m = Ok text ->
  exists c,
    evo_command_struct kind R C a m = Ok c /\ text = render_cmd_int c /\
    Forall slot_whole (cm_slots c) /\
    parse_cmd text = Some c /\ parse_cmd (render_cmd c) = Some c /\
    length l = length (flattenF (c_wells a)) /\
    track_vols a = map (fun z => XQ (inject_Z z)) l /\
    Forall (fun z => (0 <= z)%Z /\ (inject_Z z <= m)%Q) l.
Proof. exact tx_evo_command_int. Qed.
Print Assumptions C13_int_list.

(** the text determines the structured command *)
Theorem C13_text_determines : forall kind R C a m kind' R' C' a' m' text,
  kind = "Aspirate"%string \/ kind = "Dispense"%string ->
  kind' = "Aspirate"%string \/ kind' = "Dispense"%string ->
  tx_lc_clean (c_liquid_class a) -> tx_lc_clean (c_liquid_class a') ->
  evo_command kind R C a m = Ok text -> evo_command kind' R' C' a' m' = Ok text ->
  evo_command_struct kind R C a m = evo_command_struct kind' R' C' a' m'.
Proof. exact tx_text_determines. Qed.
Print Assumptions C13_text_determines.

(** C13_fields on the text: the parsed command names the kind, liquid class, arm, grid, site - 1 and the
    tip mask of the call ([tip_mask] of C10 on the tip list); slot i is used exactly when tip i is given *)
Theorem C13_parse_fields : forall kind R C a m text,
  kind = "Aspirate"%string \/ kind = "Dispense"%string -> tx_lc_clean (c_liquid_class a) ->
  evo_command kind R C a m = Ok text ->
  exists c bs,
    parse_cmd text = Some c /\
    elems_bits (c_tips a) = Some bs /\ asc_nat bs = true /\
    cm_kind c = kind /\
    c_liquid_class a = PStr (cm_lc c) /\
    cm_arm c = c_arm a /\
    c_grid a = PInt (cm_grid c) /\
    c_site a = PInt (cm_site c + 1) /\
    cm_mask c = Z.of_N (mask_or bs) /\
    tip_mask (TipMany (c_tips a)) = Ok (Some (mask_or bs)) /\
    (0 <= cm_mask c < 256)%Z /\
    length (cm_slots c) = 8 /\
    (forall i, i < 8 -> ((exists h, nth_error (cm_slots c) i = Some (Some h)) <-> In i bs)) /\
    (forall i, i < 8 -> ((exists h, nth_error (cm_slots c) i = Some (Some h)) <->
                         Z.testbit (cm_mask c) (Z.of_nat i) = true)).
Proof. exact tx_parse_fields. Qed.
Print Assumptions C13_parse_fields.

(** C13_agree on the text: text -> parsed command -> decoded effect = the i-th well changed by the i-th
    validated volume to two decimals; these volumes are the ones handed to the tracking *)
Theorem C13_agree_text : forall kind n_rows n_cols a m text,
  kind = "Aspirate"%string \/ kind = "Dispense"%string -> tx_lc_clean (c_liquid_class a) ->
  n_rows <= 26 -> n_cols < 256 ->
  evo_command kind n_rows n_cols a m = Ok text ->
  exists c qs rcs,
    parse_cmd text = Some c /\
    map (make_well_index n_rows n_cols) (flattenF (c_wells a)) = map Some rcs /\
    length qs = length rcs /\
    track_vols a = map XQ qs /\
    decode_effect n_rows n_cols c = Some (effect_of rcs qs).
Proof. exact tx_evo_command_agree. Qed.
Print Assumptions C13_agree_text.

(** end to end on the worklist, from the text of the appended record: it parses to a command that decodes to
    wells [rcs] with volumes [qs] ROUNDED to two decimals ([effect_of] rounds to hundredths, as the command text
    does), and the tracked labware lost exactly the unrounded [qs] on those wells: [qs] is determined by the
    ledger conjunct, the decoded command agrees with it up to the rounding (at most 1/200 per well, C09_round2c_bound) *)
Theorem C13_agree_aspirate_text : forall s k a label s' L,
  tx_lc_clean (c_liquid_class a) ->
  evo_aspirate s k a label = (s', None) -> nth_error (st_lw s) k = Some L -> wf_shape L ->
  g_cols (lw_geom L) < 256 ->
  exists L' w text c rcs qs,
    nth_error (st_lw s') k = Some L' /\ st_wl s' = emit w [RCmd text] /\
    parse_cmd text = Some c /\
    decode_effect (n_row_ids (lw_geom L)) (g_cols (lw_geom L)) c = Some (effect_of rcs qs) /\
    length qs = length rcs /\
    length (lw_vols L') = length (lw_vols L) /\
    forall j, (nth j (lw_vols L') 0 ==
               nth j (lw_vols L) 0 + delta (neg_events (zip (map (real_index (lw_geom L)) rcs) qs)) j)%Q.
Proof. exact tx_evo_aspirate_ledger. Qed.
Print Assumptions C13_agree_aspirate_text.

Theorem C13_agree_dispense_text : forall s k a label comps s' L,
  tx_lc_clean (c_liquid_class a) ->
  evo_dispense s k a label comps = (s', None) -> nth_error (st_lw s) k = Some L -> wf_shape L ->
  g_cols (lw_geom L) < 256 ->
  exists L' w text c rcs qs,
    nth_error (st_lw s') k = Some L' /\ st_wl s' = emit w [RCmd text] /\
    parse_cmd text = Some c /\
    decode_effect (n_row_ids (lw_geom L)) (g_cols (lw_geom L)) c = Some (effect_of rcs qs) /\
    length qs = length rcs /\
    length (lw_vols L') = length (lw_vols L) /\
    forall j, (nth j (lw_vols L') 0 ==
               nth j (lw_vols L) 0 + delta (zip (map (real_index (lw_geom L)) rcs) qs) j)%Q.
Proof. exact tx_evo_dispense_ledger. Qed.
Print Assumptions C13_agree_dispense_text.

(** the wash command text parses, in the documented parameter order, to the arguments given (sites
    zero-based, volumes in tenths of a millilitre); no hypothesis - the wash command has no free text *)
Theorem C13_wash_parse : forall a text, evo_wash_cmd a = Ok text ->
  exists wc bs,
    parse_wash text = Some wc /\
    elems_bits (wa_tips a) = Some bs /\ wc_mask wc = Z.of_N (mask_or bs) /\
    wa_waste_grid a = PInt (wc_waste_grid wc) /\ wa_waste_site a = PInt (wc_waste_site wc + 1) /\
    wa_cleaner_grid a = PInt (wc_cleaner_grid wc) /\ wa_cleaner_site a = PInt (wc_cleaner_site wc + 1) /\
    tx_wash_vol_val (wa_waste_vol a) (wc_waste_vol wc) /\ wa_waste_delay a = PInt (wc_waste_delay wc) /\
    tx_wash_vol_val (wa_cleaner_vol a) (wc_cleaner_vol wc) /\ wa_cleaner_delay a = PInt (wc_cleaner_delay wc) /\
    wa_airgap a = PInt (wc_airgap wc) /\ wa_airgap_speed a = PInt (wc_airgap_speed wc) /\
    wa_retract_speed a = PInt (wc_retract_speed wc) /\
    wa_fastwash a = PInt (wc_fastwash wc) /\ wa_low_volume a = PInt (wc_low_volume wc) /\
    wc_arm wc = wa_arm a.
Proof. exact tx_wash_parse. Qed.
Print Assumptions C13_wash_parse.

(* ------------------------------------------------------------------ non-vacuity *)

#[local] Open Scope string_scope.

(** three wells of column 3 of an 8 x 12 plate, tips 2, 5, 7 (numbers and Tip members mixed),
    three distinct volumes *)
Definition ex_args : cmdargs :=
  {| c_wells := A1 ["A03"; "C03"; "F03"]; c_grid := PInt 10; c_site := PInt 2;
     c_volume := CVList [PV (XQ 10.5); PV (XQ 25); PV (XQ 3.456)];
     c_liquid_class := PStr "Water"; c_tips := [TInt 2; TTip 5; TInt 7]; c_arm := 0%Z |}.

Example C13_example_text :
  evo_command "Aspirate" 8 12 ex_args 950 =
  Ok "B;Aspirate(82,""Water"",0,""10.5"",0,0,""25.0"",0,""3.46"",0,0,0,0,0,10,1,1,""0C0800D10000000000"",0,0);".
Proof. vm_compute. reflexivity. Qed.

Example C13_example_struct :
  evo_command_struct "Aspirate" 8 12 ex_args 950 =
  Ok {| cm_kind := "Aspirate"; cm_mask := 82; cm_lc := "Water";
        cm_slots := [None; Some 1050%Z; None; None; Some 2500%Z; None; Some 346%Z; None];
        cm_grid := 10; cm_site := 1; cm_sel := "0C0800D10000000000"; cm_arm := 0 |}.
Proof. vm_compute. reflexivity. Qed.

(** the text, parsed: the same structured command; the hypotheses of C13_parse hold *)
Example C13_example_parse :
  parse_cmd "B;Aspirate(82,""Water"",0,""10.5"",0,0,""25.0"",0,""3.46"",0,0,0,0,0,10,1,1,""0C0800D10000000000"",0,0);"
  = Some {| cm_kind := "Aspirate"; cm_mask := 82; cm_lc := "Water";
            cm_slots := [None; Some 1050%Z; None; None; Some 2500%Z; None; Some 346%Z; None];
            cm_grid := 10; cm_site := 1; cm_sel := "0C0800D10000000000"; cm_arm := 0 |} /\
  tx_lc_clean (c_liquid_class ex_args) /\
  parse_cmd "B;Aspirate(82,""Water"",0,""10.5"",0,0,""25.0"",0,""3.46"",0,0,0,0,0,10,1,1,""0C0800D10000000000"",0,0)" = None /\
  parse_cmd "B;Mix(82,""Water"",0,""10.5"",0,0,""25.0"",0,""3.46"",0,0,0,0,0,10,1,1,""0C0800D10000000000"",0,0);" = None /\
  parse_cmd "B;Aspirate(82,""Water"",0,""10.5"",0,0,""25.0"",0,""3.46"",0,0,0,0,10,1,1,""0C0800D10000000000"",0,0);" = None /\
  parse_cmd "B;Aspirate(82,""Water"",0,""10.555"",0,0,""25.0"",0,""3.46"",0,0,0,0,0,10,1,1,""0C0800D10000000000"",0,0);" = None.
Proof. vm_compute. repeat split; reflexivity. Qed.

(** decoded: A03 = (0, 2) by tip 2 with 10.50, C03 = (2, 2) by tip 5 with 25.00, F03 = (5, 2) by tip 7
    with 3.46; mask and slots are consistent *)
Example C13_example_decode :
  match evo_command_struct "Aspirate" 8 12 ex_args 950 with
  | Ok c => decode_effect 8 12 c = Some [(0, 2, 1050 # 100); (2, 2, 2500 # 100); (5, 2, 346 # 100)] /\
            mask_tips (cm_mask c) = [1; 4; 6] /\ cmd_consistent c = true
  | Err _ => False
  end.
Proof. vm_compute. repeat split; reflexivity. Qed.

Example C13_example_track :
  track_wells ex_args = ["A03"; "C03"; "F03"] /\
  track_vols ex_args = [XQ 10.5; XQ 25; XQ 3.456] /\
  map (make_well_index 8 12) (track_wells ex_args) = [Some (0, 2); Some (2, 2); Some (5, 2)].
Proof. vm_compute. repeat split; reflexivity. Qed.

(** a scalar volume serves every well *)
Example C13_example_scalar :
  evo_command "Dispense" 8 12
    {| c_wells := A1 ["B01"; "C01"]; c_grid := PInt 67; c_site := PInt 128; c_volume := CVScalar (PV (XQ 7));
       c_liquid_class := PStr "LC"; c_tips := [TTip 1; TTip 8]; c_arm := 1%Z |} 950 =
  Ok "B;Dispense(129,""LC"",""7.0"",0,0,0,0,0,0,""7.0"",0,0,0,0,67,127,1,""0C0860000000000000"",0,1);".
Proof. vm_compute. reflexivity. Qed.

(** per-tip volumes as a list of Python ints, volumes=[5, 10]: plain integers in the text; the float list
    [5.0, 10.0] gives "5.0","10.0"; both texts parse to the same command (500 and 1000 hundredths), whose
    decoded effect is 5 ul on B01 and 10 ul on C01; the tracking sees the same volumes in both cases; a mixed
    list [5, 2.5] is a float list; an int above max_volume and an int list of the wrong length are refused *)
Definition ex_int_args (v : cmdvol) : cmdargs :=
  {| c_wells := A1 ["B01"; "C01"]; c_grid := PInt 67; c_site := PInt 128; c_volume := v;
     c_liquid_class := PStr "LC"; c_tips := [TTip 1; TTip 8]; c_arm := 1%Z |}.

Example C13_example_int_list :
  let int_text := "B;Dispense(129,""LC"",""5"",0,0,0,0,0,0,""10"",0,0,0,0,67,127,1,""0C0860000000000000"",0,1);" in
  let float_text := "B;Dispense(129,""LC"",""5.0"",0,0,0,0,0,0,""10.0"",0,0,0,0,67,127,1,""0C0860000000000000"",0,1);" in
  let c := {| cm_kind := "Dispense"; cm_mask := 129; cm_lc := "LC";
              cm_slots := [Some 500%Z; None; None; None; None; None; None; Some 1000%Z];
              cm_grid := 67; cm_site := 127; cm_sel := "0C0860000000000000"; cm_arm := 1 |} in
  evo_command "Dispense" 8 12 (ex_int_args (CVIntList [5; 10]%Z)) 950 = Ok int_text /\
  evo_command "Dispense" 8 12 (ex_int_args (CVList [PV (XQ 5); PV (XQ 10)])) 950 = Ok float_text /\
  evo_command_struct "Dispense" 8 12 (ex_int_args (CVIntList [5; 10]%Z)) 950 = Ok c /\
  evo_command_struct "Dispense" 8 12 (ex_int_args (CVList [PV (XQ 5); PV (XQ 10)])) 950 = Ok c /\
  parse_cmd int_text = Some c /\ parse_cmd float_text = Some c /\
  render_cmd_int c = int_text /\ render_cmd c = float_text /\
  decode_effect 8 12 c = Some [(1, 0, 500 # 100); (2, 0, 1000 # 100)] /\
  track_vols (ex_int_args (CVIntList [5; 10]%Z)) = [XQ 5; XQ 10] /\
  track_vols (ex_int_args (CVList [PV (XQ 5); PV (XQ 10)])) = [XQ 5; XQ 10] /\
  evo_command "Dispense" 8 12 (ex_int_args (CVList [PV (XQ 5); PV (XQ 2.5)])) 950 =
    Ok "B;Dispense(129,""LC"",""5.0"",0,0,0,0,0,0,""2.5"",0,0,0,0,67,127,1,""0C0860000000000000"",0,1);" /\
  evo_command "Dispense" 8 12 (ex_int_args (CVIntList [0; 950]%Z)) 950 =
    Ok "B;Dispense(129,""LC"",""0"",0,0,0,0,0,0,""950"",0,0,0,0,67,127,1,""0C0860000000000000"",0,1);" /\
  evo_command "Dispense" 8 12 (ex_int_args (CVIntList [5; 951]%Z)) 950 = Err EInvalidOp /\
  evo_command "Dispense" 8 12 (ex_int_args (CVIntList [5; -1]%Z)) 950 = Err EReject /\
  evo_command "Dispense" 8 12 (ex_int_args (CVIntList [5; 7158279]%Z)) 10000000 = Err EReject /\
  evo_command "Dispense" 8 12 (ex_int_args (CVIntList [5]%Z)) 950 = Err EReject /\
  evo_command "Dispense" 8 12 (ex_int_args (CVIntList [5; 10; 15]%Z)) 950 = Err EReject /\
  tx_lc_clean (c_liquid_class (ex_int_args (CVIntList [5; 10]%Z))).
Proof. vm_compute. repeat split; reflexivity. Qed.

(** on the worklist: a well-formed 8 x 12 plate with 100 ul everywhere *)
Definition ex_plate96 : labware :=
  {| lw_name := "plate"; lw_geom := {| g_rows := 8; g_cols := 12; g_vrows := None |};
     lw_min := 0; lw_max := 200; lw_vols := repeat 100%Q 96; lw_comp := [];
     lw_hist := [(Some "initial", repeat 100%Q 96)] |}.
Definition ex_state : state :=
  {| st_lw := [ex_plate96];
     st_wl := {| w_recs := []; w_max := 950; w_autosplit := true; w_diti := false; w_dev := Evo |} |}.

Example C13_example_wf : wf_shape ex_plate96 /\ g_cols (lw_geom ex_plate96) < 256.
Proof.
  split; [|vm_compute; lia]. unfold wf_shape, wf_geom. cbn [ex_plate96 lw_geom lw_vols lw_comp lw_hist g_rows g_cols g_vrows].
  repeat split; try lia; try reflexivity; try discriminate.
  - constructor.
  - constructor; [reflexivity|constructor].
Qed.

Example C13_example_worklist :
  let r := evo_aspirate ex_state 0 ex_args (Some "take") in
  snd r = None /\
  w_recs (st_wl (fst r)) =
    [RC "take";
     RCmd "B;Aspirate(82,""Water"",0,""10.5"",0,0,""25.0"",0,""3.46"",0,0,0,0,0,10,1,1,""0C0800D10000000000"",0,0);"] /\
  match nth_error (st_lw (fst r)) 0 with
  | Some L' => nth 2 (lw_vols L') 0%Q = (179 # 2)%Q /\ nth 26 (lw_vols L') 0%Q = 75%Q /\
               nth 62 (lw_vols L') 0%Q = (12068 # 125)%Q /\ nth 3 (lw_vols L') 0%Q = 100%Q
  | None => False
  end.
Proof. vm_compute. repeat split; reflexivity. Qed.

(** rejections: wells out of order, a repeated well, repeated / descending tips, Tip.Any, two columns,
    three wells for two tips, grid 68, site 0, arm 2, a negative volume, a volume above max_volume,
    a volume list of the wrong length, ";" in the liquid class, an unknown well id *)
Definition with_wells (ws : list string) (a : cmdargs) : cmdargs :=
  {| c_wells := A1 ws; c_grid := c_grid a; c_site := c_site a; c_volume := c_volume a;
     c_liquid_class := c_liquid_class a; c_tips := c_tips a; c_arm := c_arm a |}.
Definition with_tips (ts : list tipelem) (a : cmdargs) : cmdargs :=
  {| c_wells := c_wells a; c_grid := c_grid a; c_site := c_site a; c_volume := c_volume a;
     c_liquid_class := c_liquid_class a; c_tips := ts; c_arm := c_arm a |}.
Definition with_vol (v : cmdvol) (a : cmdargs) : cmdargs :=
  {| c_wells := c_wells a; c_grid := c_grid a; c_site := c_site a; c_volume := v;
     c_liquid_class := c_liquid_class a; c_tips := c_tips a; c_arm := c_arm a |}.
Definition with_place (g s : pyint) (arm : Z) (lc : ptext) (a : cmdargs) : cmdargs :=
  {| c_wells := c_wells a; c_grid := g; c_site := s; c_volume := c_volume a;
     c_liquid_class := lc; c_tips := c_tips a; c_arm := arm |}.

Example C13_example_reject :
  let run a := evo_command "Aspirate" 8 12 a 950 in
  run (with_wells ["C03"; "A03"; "F03"] ex_args) = Err EReject /\
  run (with_wells ["A03"; "A03"; "F03"] ex_args) = Err EReject /\
  run (with_tips [TInt 2; TInt 2; TInt 7] ex_args) = Err EReject /\
  run (with_tips [TInt 5; TInt 2; TInt 7] ex_args) = Err EReject /\
  run (with_tips [TInt 2; TAny; TInt 7] ex_args) = Err EReject /\
  run (with_tips [TInt 2; TInt 9; TInt 7] ex_args) = Err EReject /\
  run (with_wells ["A03"; "C03"; "F04"] ex_args) = Err EReject /\
  selected_columns 8 12 ["A03"; "C03"; "F04"] = 2 /\
  run (with_tips [TInt 2; TInt 5] ex_args) = Err EReject /\
  run (with_place (PInt 68) (PInt 2) 0 (PStr "Water") ex_args) = Err EReject /\
  run (with_place (PInt 10) (PInt 0) 0 (PStr "Water") ex_args) = Err EReject /\
  run (with_place (PInt 10) (PInt 2) 2 (PStr "Water") ex_args) = Err EReject /\
  run (with_place (PInt 10) (PInt 2) 0 (PStr "Wa;ter") ex_args) = Err EReject /\
  run (with_place (PInt 10) (PInt 2) 0 PNotStr ex_args) = Err EReject /\
  run (with_vol (CVList [PV (XQ 10.5); PV (XQ (-1)); PV (XQ 3.456)]) ex_args) = Err EReject /\
  run (with_vol (CVList [PV (XQ 10.5); PV XNaN; PV (XQ 3.456)]) ex_args) = Err EReject /\
  run (with_vol (CVList [PV (XQ 10.5); PV (XQ 951); PV (XQ 3.456)]) ex_args) = Err EInvalidOp /\
  run (with_vol (CVScalar (PV (XQ 951))) ex_args) = Err EInvalidOp /\
  run (with_vol (CVScalar (PV XPInf)) ex_args) = Err EReject /\
  run (with_vol (CVList [PV (XQ 10.5); PV (XQ 25)]) ex_args) = Err EReject /\
  run (with_wells ["A03"; "C03"; "I03"] ex_args) = Err EReject /\
  run (with_wells ["A3"; "C03"; "F03"] ex_args) = Err EReject.
Proof. vm_compute. repeat split; reflexivity. Qed.

(** a liquid class with a comma or a double quote is accepted (only ";" is refused) and emitted unescaped;
    the resulting text is not a well-formed command: the hypothesis [tx_lc_clean] is needed *)
Example C13_example_lc_unparsable :
  let run lc := evo_command "Aspirate" 8 12 (with_place (PInt 10) (PInt 2) 0 (PStr lc) ex_args) 950 in
  run "Wa,ter" =
    Ok "B;Aspirate(82,""Wa,ter"",0,""10.5"",0,0,""25.0"",0,""3.46"",0,0,0,0,0,10,1,1,""0C0800D10000000000"",0,0);" /\
  match run "Wa,ter" with Ok t => parse_cmd t = None | Err _ => False end /\
  match run "Wa""ter" with Ok t => parse_cmd t = None | Err _ => False end /\
  match run "W(a)ter" with Ok t => exists c, parse_cmd t = Some c /\ cm_lc c = "W(a)ter" | Err _ => False end.
Proof. vm_compute. repeat split; try reflexivity. eexists. split; reflexivity. Qed.

(** a command refused after the tracking: no command record, only the label comment *)
Example C13_example_reject_worklist :
  let r := evo_aspirate ex_state 0 (with_tips [TInt 2; TInt 2; TInt 7] ex_args) (Some "take") in
  snd r = Some EReject /\ w_recs (st_wl (fst r)) = [RC "take"].
Proof. vm_compute. split; reflexivity. Qed.

(** wash: tips 1, 3, 3 (Tip member), 8 -> mask 1 + 4 + 128; float volume rounded to one decimal *)
Definition ex_wash : washargs :=
  {| wa_tips := [TInt 1; TInt 3; TTip 3; TInt 8];
     wa_waste_grid := PInt 30; wa_waste_site := PInt 2; wa_cleaner_grid := PInt 30; wa_cleaner_site := PInt 1;
     wa_arm := 0%Z; wa_waste_vol := FI_float (XQ 3.14); wa_waste_delay := PInt 500;
     wa_cleaner_vol := FI_int 4; wa_cleaner_delay := PInt 1000;
     wa_airgap := PInt 10; wa_airgap_speed := PInt 70; wa_retract_speed := PInt 30;
     wa_fastwash := PInt 1; wa_low_volume := PInt 0 |}.

Example C13_example_wash :
  evo_wash_cmd ex_wash = Ok "B;Wash(133,30,1,30,0,""3.1"",500,""4"",1000,10,70,30,1,0,1000,0);" /\
  elems_bits (wa_tips ex_wash) = Some [0; 2; 2; 7] /\ mask_or [0; 2; 2; 7] = 133%N.
Proof. vm_compute. repeat split; reflexivity. Qed.

(** the wash text, parsed *)
Example C13_example_wash_parse :
  parse_wash "B;Wash(133,30,1,30,0,""3.1"",500,""4"",1000,10,70,30,1,0,1000,0);" =
  Some {| wc_mask := 133; wc_waste_grid := 30; wc_waste_site := 1; wc_cleaner_grid := 30; wc_cleaner_site := 0;
          wc_waste_vol := 31; wc_waste_delay := 500; wc_cleaner_vol := 40; wc_cleaner_delay := 1000;
          wc_airgap := 10; wc_airgap_speed := 70; wc_retract_speed := 30; wc_fastwash := 1;
          wc_low_volume := 0; wc_arm := 0 |} /\
  tx_wash_vol_val (wa_waste_vol ex_wash) 31 /\ tx_wash_vol_val (wa_cleaner_vol ex_wash) 40.
Proof. vm_compute. repeat split; reflexivity. Qed.

Example C13_example_wash_reject :
  let set_tips ts := {| wa_tips := ts;
     wa_waste_grid := wa_waste_grid ex_wash; wa_waste_site := wa_waste_site ex_wash;
     wa_cleaner_grid := wa_cleaner_grid ex_wash; wa_cleaner_site := wa_cleaner_site ex_wash;
     wa_arm := wa_arm ex_wash; wa_waste_vol := wa_waste_vol ex_wash; wa_waste_delay := wa_waste_delay ex_wash;
     wa_cleaner_vol := wa_cleaner_vol ex_wash; wa_cleaner_delay := wa_cleaner_delay ex_wash;
     wa_airgap := wa_airgap ex_wash; wa_airgap_speed := wa_airgap_speed ex_wash;
     wa_retract_speed := wa_retract_speed ex_wash;
     wa_fastwash := wa_fastwash ex_wash; wa_low_volume := wa_low_volume ex_wash |} in
  evo_wash_cmd (set_tips [TInt 1; TAny]) = Err EReject /\
  evo_wash_cmd (set_tips [TInt 0]) = Err EReject /\
  evo_wash_cmd (set_tips []) =
    Ok "B;Wash(0,30,1,30,0,""3.1"",500,""4"",1000,10,70,30,1,0,1000,0);".
Proof. vm_compute. repeat split; reflexivity. Qed.
