(** C06 — with auto_split, a transfer volume v > 0 is emitted as exactly
    max(1, ceil(v / max_volume)) steps, each with 0 < step <= max_volume, adding up to v (nothing for
    v = 0), so an automatically split transfer is never refused for being too large; with auto_split
    disabled a step above max_volume raises InvalidOperationError; a reagent distribution never plans
    more multi-dispenses per aspiration than fit into max_volume.
    Statements only; proofs live in Proofs/PartitionProofs.v (partition_volume),
    Proofs/PlanProofs.v (the plan of a transfer; the reagent_distribution part re-exports
    Proofs/RecordsProofs.v) and Proofs/SafetyExtraProofs.v (whole calls of [transfer] and [distribute]:
    the last section of this file).

    Definitions used in the last section: [t_vol swells dwells vols] / [t_triples swells dwells vols]
    (Proofs/PlanProofs.v): the broadcast volume list / the (source, destination, volume) triples that
    [transfer] builds from its arguments; [steps_le m acts] (Proofs/SafetyExtraProofs.v): every [Step] of
    [acts] has a volume <= m; [bounded_rec_full m r]: an A / D record has 0 <= volume <= m, an R record
    has 0 <= volume <= m and multi-dispense count * volume <= m. *)
From Robo Require Import Prelude Str Wells Utils Labware Tips Records Partition Params Worklist
  PartitionProofs LabwareProofs PlanProofs SafetyExtraProofs.

Local Open Scope Q_scope.

(** number of steps, bounds of every step, and the sum, for every v > 0 and max_volume > 0 *)
Theorem C06_partition : forall (v m : Q), 0 < m -> 0 < v ->
  let l := partition_volume v m in
  Z.of_nat (length l) = Z.max 1 (Qceiling (v / m)) /\
  Forall (fun x => 0 < x /\ x <= m) l /\
  Qsum l == v.
Proof. exact partition_volume_spec. Qed.
Print Assumptions C06_partition.

(** nothing is emitted for v = 0 *)
Theorem C06_zero : forall (v m : Q), v == 0 -> partition_volume v m = [].
Proof. exact partition_volume_zero. Qed.
Print Assumptions C06_zero.

(** no admissible split is shorter *)
Theorem C06_minimal : forall (v m : Q) (l : list Q), 0 < m -> 0 < v ->
  Forall (fun x => x <= m) l -> Qsum l == v ->
  (length (partition_volume v m) <= length l)%nat.
Proof. exact partition_volume_minimal. Qed.
Print Assumptions C06_minimal.

(** non-vacuity: 2000 with max 950 (integer step), 1.2 with max 0.5 (step capped by max_volume),
    a volume below and a volume equal to max_volume *)
Example C06_example :
  partition_volume 2000 950 = [667; 667; 666] /\
  partition_volume (12 # 10) (1 # 2) = [1 # 2; 1 # 2; 1 # 5] /\
  partition_volume (3 # 2) 950 = [3 # 2] /\
  partition_volume 950 950 = [950] /\
  partition_volume 0 950 = [].
Proof. vm_compute. repeat split. Qed.

(* ------------------------------------------------------------------ transfer level *)

(** the (source, destination, volume) of the steps of a plan, in order *)
Definition steps_of (acts : list action) : list triple :=
  flat_map (fun a => match a with Step s d v => [(s, d, v)] | Commit => [] end) acts.

Definition sd_eqb (s d : string) (t : triple) : bool :=
  String.eqb (fst (fst t)) s && String.eqb (snd (fst t)) d.

(** if the pair (s, d) is requested by exactly one triple (s, d, v), the planned steps of that pair
    are, in order, [partition_volume v max_volume] ... *)
Theorem C06_transfer_split : forall (m : Q) (mode : pmode) (triples : list triple) (s d : string) (v : Q),
  0 < m -> 0 <= v ->
  filter (sd_eqb s d) triples = [(s, d, v)] ->
  map snd (filter (sd_eqb s d) (steps_of (plan true m mode triples))) = partition_volume v m.
Proof. exact transfer_split. Qed.
Print Assumptions C06_transfer_split.

(** ... hence exactly max(1, ceil(v / max_volume)) pairs, each in (0, max_volume], adding up to v ... *)
Theorem C06_transfer_split_spec : forall (m : Q) (mode : pmode) (triples : list triple) (s d : string) (v : Q),
  0 < m -> 0 < v ->
  filter (sd_eqb s d) triples = [(s, d, v)] ->
  let l := map snd (filter (sd_eqb s d) (steps_of (plan true m mode triples))) in
  Z.of_nat (length l) = Z.max 1 (Qceiling (v / m)) /\
  Forall (fun x => 0 < x /\ x <= m) l /\
  Qsum l == v.
Proof. exact transfer_split_spec. Qed.
Print Assumptions C06_transfer_split_spec.

(** ... and nothing for v = 0 *)
Theorem C06_transfer_zero : forall (m : Q) (mode : pmode) (triples : list triple) (s d : string) (v : Q),
  0 < m -> v == 0 ->
  filter (sd_eqb s d) triples = [(s, d, v)] ->
  filter (sd_eqb s d) (steps_of (plan true m mode triples)) = [].
Proof. exact transfer_split_zero. Qed.
Print Assumptions C06_transfer_zero.

(** with auto_split no planned step is above max_volume, so the volume check of the A/D records
    never raises InvalidOperationError for it (and accepts it if max_volume is within the format) *)
Theorem C06_never_refused : forall (m : Q) (mode : pmode) (triples : list triple) (s d : string) (v : Q),
  0 < m -> In (Step s d v) (plan true m mode triples) ->
  check_volume (PV (XQ v)) (Some m) <> Err EInvalidOp /\
  (m <= max_tecan_volume -> check_volume (PV (XQ v)) (Some m) = Ok v).
Proof. exact plan_never_refused. Qed.
Print Assumptions C06_never_refused.

(** without auto_split: an A or D record above max_volume raises InvalidOperationError (the rack label
    and the position are checked first, everything else later) ... *)
Theorem C06_no_split : forall (w : wstate) (a : adargs) (label : string) (pos : Z) (v : Q),
  text_ok true (x_rack_label a) = Some label -> check_position (x_position a) = Ok pos ->
  x_volume a = PV (XQ v) -> 0 <= v -> v <= max_tecan_volume -> w_max w < v ->
  aspirate_well w a = (w, Some EInvalidOp) /\ dispense_well w a = (w, Some EInvalidOp).
Proof. exact aspirate_well_too_large. Qed.
Print Assumptions C06_no_split.

(** ... the plan contains the unsplit volume ... *)
Theorem C06_no_split_plan : forall (m : Q) (mode : pmode) (triples : list triple) (s d : string) (v : Q),
  In (s, d, v) triples -> 0 < v -> In (Step s d v) (plan false m mode triples).
Proof. exact plan_nosplit_contains. Qed.
Print Assumptions C06_no_split_plan.

Theorem C06_no_split_pair : forall (m : Q) (mode : pmode) (triples : list triple) (s d : string) (v : Q),
  filter (sd_eqb s d) triples = [(s, d, v)] ->
  filter (sd_eqb s d) (steps_of (plan false m mode triples)) = if Qltb 0 v then [(s, d, v)] else [].
Proof. exact transfer_nosplit_pair. Qed.
Print Assumptions C06_no_split_pair.

(** ... and executing such a step raises InvalidOperationError once the source labware has accepted
    the removal (the source labware is already charged, no record is written) *)
Theorem C06_no_split_step : forall (s : state) (ks kd : nat) (sw dw : string) (v : Q) (ws : scheme)
    (kw : kwargs) (L L' : labware) (pos : nat),
  nth_error (st_lw s) ks = Some L ->
  remove L (A1 [sw]) (A1 [XQ v]) None = (L', None) ->
  device_position (w_dev (st_wl s)) (lw_geom L) sw = Ok pos ->
  text_ok true (PStr (lw_name L)) = Some (lw_name L) ->
  0 < v -> v <= max_tecan_volume -> w_max (st_wl s) < v ->
  exec_step s ks kd sw dw v ws kw = (set_lw s ks L', Some EInvalidOp).
Proof. exact exec_step_too_large. Qed.
Print Assumptions C06_no_split_step.

(** reagent_distribution: the multi-dispense count of the emitted R record times the volume fits
    into max_volume; it is the requested count if that fits, otherwise floor(max_volume / volume),
    the largest count that fits *)
Theorem C06_multi_disp : forall (w : wstate) (a : rdargs) (w' : wstate),
  reagent_distribution w a = (w', None) ->
  exists f,
    w_recs w' = (w_recs w ++ [RR f])%list /\
    match rd_volume a with
    | RVInt z => r_volume f = PyI z
    | RVFloat x => exists q, x = XQ q /\ r_volume f = PyF q
    | RVBad => False
    end /\
    0 <= pynum_q (r_volume f) /\ pynum_q (r_volume f) <= w_max w /\
    inject_Z (r_multi_disp f) * pynum_q (r_volume f) <= w_max w /\
    (inject_Z (rd_multi_disp a) * pynum_q (r_volume f) <= w_max w -> r_multi_disp f = rd_multi_disp a) /\
    (w_max w < inject_Z (rd_multi_disp a) * pynum_q (r_volume f) ->
       r_multi_disp f = Qfloor (w_max w / pynum_q (r_volume f)) /\
       w_max w < inject_Z (r_multi_disp f + 1) * pynum_q (r_volume f)).
Proof. exact reagent_distribution_multi. Qed.
Print Assumptions C06_multi_disp.

(** non-vacuity: 40 from A01 to A01 with max_volume 15 is planned as 14 + 14 + 12; without auto_split
    the step of 40 is executed and refused *)
Example C06_example_transfer :
  let triples := [("A01", "A01", 40); ("A01", "B01", 10); ("A01", "A02", 5)]%string in
  filter (sd_eqb "A01" "A01") triples = [("A01", "A01", 40)]%string /\
  map snd (filter (sd_eqb "A01" "A01") (steps_of (plan true 15 ByDestination triples))) = [14; 14; 12] /\
  partition_volume 40 15 = [14; 14; 12] /\
  plan false 15 ByDestination triples
  = [Step "A01" "A01" 40; Step "A01" "B01" 10; Step "A01" "A02" 5]%string.
Proof. vm_compute. repeat split. Qed.

Definition ex_state (mx : Q) (autosplit : bool) : state :=
  {| st_lw := [ex_trough; ex_plate];
     st_wl := {| w_recs := []; w_max := mx; w_autosplit := autosplit; w_diti := false; w_dev := Evo |} |}.

Example C06_example_refused :
  snd (transfer (ex_state 15 false) 0 (A0 "A01"%string) 1 (A1 ["A01"; "B01"; "A02"]%string)
                (A1 [40; 10; 5]) None (SInt 1) "auto" kw_default) = Some EInvalidOp /\
  snd (transfer (ex_state 15 true) 0 (A0 "A01"%string) 1 (A1 ["A01"; "B01"; "A02"]%string)
                (A1 [40; 10; 5]) None (SInt 1) "auto" kw_default) = None /\
  snd (exec_step (ex_state 15 false) 0 1 "A01" "A01" 40 (SInt 1) kw_default) = Some EInvalidOp /\
  snd (remove ex_trough (A1 ["A01"]%string) (A1 [XQ 40]) None) = None /\
  device_position Evo (lw_geom ex_trough) "A01" = Ok 1%nat /\
  text_ok true (PStr (lw_name ex_trough)) = Some (lw_name ex_trough) /\
  aspirate_well (st_wl (ex_state 15 false)) (ad_of_kw "trough" 1 40 kw_default)
  = (st_wl (ex_state 15 false), Some EInvalidOp).
Proof. vm_compute. repeat split. Qed.

(** multi-dispense: 12 x 100 does not fit into 950, 9 x 100 does *)
Example C06_example_multi :
  let a := {| rd_src_label := PStr "src"; rd_src_start := PInt 1; rd_src_end := PInt 8;
              rd_dst_label := PStr "dst"; rd_dst_start := PInt 1; rd_dst_end := PInt 96;
              rd_volume := RVInt 100; rd_diti_reuse := 1; rd_multi_disp := 12; rd_exclude := None;
              rd_liquid_class := PStr ""; rd_direction := "left_to_right";
              rd_src_id := PStr ""; rd_src_type := PStr ""; rd_dst_id := PStr ""; rd_dst_type := PStr "" |}%string in
  map render (w_recs (fst (reagent_distribution (st_wl (ex_state 950 true)) a)))
  = ["R;src;;;1;8;dst;;;1;96;100;;1;9;0"]%string.
Proof. vm_compute. repeat split. Qed.

(* ------------------------------------------------------------------ whole calls: distribute *)

(** [Worklist.distribute] (the call users make; [C06_multi_disp] above is about the record emitter it
    ends in): an accepted call appends the comment records of its label (the lines [ls] of [d_label a];
    none for no label or an empty one) and exactly one R record; the
    volume of the record is the requested per-well volume, within [0, max_volume]; the multi-dispense
    count of the record times the volume fits into max_volume; it is the requested count if that fits,
    otherwise floor(max_volume / volume), the largest count that fits *)
Theorem C06_distribute_multi : forall (s : state) (ks kd : nat) (dwells : arr string) (a : distargs) (s' : state),
  distribute s ks kd dwells a = (s', None) ->
  exists ls f,
    ls = match d_label a with
         | Some l => if String.eqb l "" then [] else comment_lines l
         | None => []
         end /\
    st_wl s' = emit (st_wl s) (map RC ls ++ [RR f]) /\
    match d_volume a with
    | RVInt z => r_volume f = PyI z
    | RVFloat x => exists q, x = XQ q /\ r_volume f = PyF q
    | RVBad => False
    end /\
    0 <= pynum_q (r_volume f) /\ pynum_q (r_volume f) <= w_max (st_wl s) /\
    inject_Z (r_multi_disp f) * pynum_q (r_volume f) <= w_max (st_wl s) /\
    (inject_Z (d_multi_disp a) * pynum_q (r_volume f) <= w_max (st_wl s) ->
       r_multi_disp f = d_multi_disp a) /\
    (w_max (st_wl s) < inject_Z (d_multi_disp a) * pynum_q (r_volume f) ->
       r_multi_disp f = Qfloor (w_max (st_wl s) / pynum_q (r_volume f)) /\
       w_max (st_wl s) < inject_Z (r_multi_disp f + 1) * pynum_q (r_volume f)).
Proof. exact distribute_multi. Qed.
Print Assumptions C06_distribute_multi.

(** a per-well volume above max_volume is refused with InvalidOperationError before anything happens
    (there is no splitting in [distribute]) *)
Theorem C06_distribute_too_large : forall (s : state) (ks kd : nat) (dwells : arr string) (a : distargs)
    (Ls Ld : labware) (vr : nat) (v : Q),
  nth_error (st_lw s) ks = Some Ls -> nth_error (st_lw s) kd = Some Ld ->
  g_vrows (lw_geom Ls) = Some vr -> rvol_x (d_volume a) = Some (XQ v) -> w_max (st_wl s) < v ->
  distribute s ks kd dwells a = (s, Some EInvalidOp).
Proof. exact distribute_too_large. Qed.
Print Assumptions C06_distribute_too_large.

(* ------------------------------------------------------------------ whole calls: transfer *)

(** the only source of InvalidOperationError in [transfer] (either device, any wash scheme, any tip,
    any label): a step of its plan - the plan for the partition mode [optimize_partition_by] chose for
    the two labware and the [partition_by] argument - is above max_volume.  (All other failures of the model are
    [EUnderflow] / [EOverflow] of the labware, [ECompat] of the base class, or [EReject] = "some other
    exception": bad arguments, unknown wells, an invalid wash scheme, a label with a separator.) *)
Theorem C06_transfer_invalid_origin : forall (s : state) (ks : nat) (swells : arr string) (kd : nat)
    (dwells : arr string) (vols : arr Q) (label : option string) (ws : scheme) (pb : string) (kw : kwargs)
    (s' : state),
  transfer s ks swells kd dwells vols label ws pb kw = (s', Some EInvalidOp) ->
  exists Ls Ld mode sw dw v,
    nth_error (st_lw s) ks = Some Ls /\ nth_error (st_lw s) kd = Some Ld /\
    optimize_partition_by (is_trough (lw_geom Ls)) (is_trough (lw_geom Ld)) pb = Ok mode /\
    In (Step sw dw v) (plan (w_autosplit (st_wl s)) (w_max (st_wl s)) mode (t_triples swells dwells vols)) /\
    w_max (st_wl s) < v.
Proof. exact transfer_invalid. Qed.
Print Assumptions C06_transfer_invalid_origin.

(** hence an automatically split transfer is never refused for being too large.  The hypothesis
    0 < max_volume is necessary ([C06_example_max_zero]) *)
Theorem C06_never_refused_transfer : forall (s : state) (ks : nat) (swells : arr string) (kd : nat)
    (dwells : arr string) (vols : arr Q) (label : option string) (ws : scheme) (pb : string) (kw : kwargs)
    (s' : state) (e : err),
  w_autosplit (st_wl s) = true -> 0 < w_max (st_wl s) ->
  transfer s ks swells kd dwells vols label ws pb kw = (s', Some e) -> e <> EInvalidOp.
Proof. exact transfer_autosplit_never_invalid. Qed.
Print Assumptions C06_never_refused_transfer.

(** without auto_split, one pipetting pair above max_volume: the call fails and appends nothing.  (Which
    exception: the source labware is charged first, so an underflow or an unknown well comes first;
    otherwise InvalidOperationError, [C06_no_split_step] above.) *)
Theorem C06_no_split_pair_nothing : forall (s : state) (ks kd : nat) (sw dw : string) (v : Q) (ws : scheme)
    (kw : kwargs),
  0 < v -> w_max (st_wl s) < v ->
  exists s1 e, exec_step s ks kd sw dw v ws kw = (s1, Some e) /\ st_wl s1 = st_wl s.
Proof. exact exec_step_oversized. Qed.
Print Assumptions C06_no_split_pair_nothing.

(** without auto_split, a whole transfer containing a volume v > max_volume (v > 0: a zero volume plans
    no step) is never accepted.  One of the following happened (the statement is an inclusive
    disjunction; the cases are distinguished by what changed):
    - the arguments were refused and nothing changed (labware and worklist as before); or
    - the label was accepted (its comment records are in [w]) and the plan has a FIRST step (sw, dw, v1)
      above max_volume, preceded by the steps [pre], all within max_volume, and
      * one of the pairs of [pre] failed (for a reason other than its size) and the call stopped there, or
      * all pairs of [pre] were executed - THEIR A / D / tip records ARE in the worklist, the call is not
        atomic - giving state [s1]; then the oversized pair failed without appending any record
        ([st_wl s' = st_wl s1]); if its source well accepts the removal and has a valid address, the
        exception is InvalidOperationError and the only change is that the source labware has been
        charged ([s' = set_lw s1 ks L']). *)
Theorem C06_no_split_refused_transfer : forall (s : state) (ks : nat) (swells : arr string) (kd : nat)
    (dwells : arr string) (vols : arr Q) (label : option string) (ws : scheme) (pb : string) (kw : kwargs)
    (s' : state) (e : option err) (v : Q),
  w_autosplit (st_wl s) = false -> In v (t_vol swells dwells vols) -> 0 < v -> w_max (st_wl s) < v ->
  transfer s ks swells kd dwells vols label ws pb kw = (s', e) ->
  exists e0, e = Some e0 /\
    ((st_lw s' = st_lw s /\ st_wl s' = st_wl s /\ (e0 = ECompat \/ e0 = EReject)) \/
     exists mode w pre sw dw v1 post,
       comment (st_wl s) label = (w, None) /\
       plan false (w_max (st_wl s)) mode (t_triples swells dwells vols) = (pre ++ Step sw dw v1 :: post)%list /\
       steps_le (w_max (st_wl s)) pre /\ 0 < v1 /\ w_max (st_wl s) < v1 /\
       (exec (set_wl s w) ks kd pre ws kw = (s', Some e0) \/
        exists s1, exec (set_wl s w) ks kd pre ws kw = (s1, None) /\
          exec_step s1 ks kd sw dw v1 ws kw = (s', Some e0) /\ st_wl s' = st_wl s1 /\
          forall L L' pos, nth_error (st_lw s1) ks = Some L ->
            remove L (A1 [sw]) (A1 [XQ v1]) None = (L', None) ->
            device_position (w_dev (st_wl s)) (lw_geom L) sw = Ok pos ->
            text_ok true (PStr (lw_name L)) = Some (lw_name L) -> v1 <= max_tecan_volume ->
            e0 = EInvalidOp /\ s' = set_lw s1 ks L')).
Proof. exact transfer_nosplit_refused. Qed.
Print Assumptions C06_no_split_refused_transfer.

(** in short: never accepted, and whatever has been appended is within max_volume (no A / D record of the
    oversized volume exists) *)
Theorem C06_no_split_not_accepted : forall (s : state) (ks : nat) (swells : arr string) (kd : nat)
    (dwells : arr string) (vols : arr Q) (label : option string) (ws : scheme) (pb : string) (kw : kwargs)
    (s' : state) (e : option err) (v : Q),
  w_autosplit (st_wl s) = false -> In v (t_vol swells dwells vols) -> 0 < v -> w_max (st_wl s) < v ->
  transfer s ks swells kd dwells vols label ws pb kw = (s', e) ->
  e <> None /\
  exists new, st_wl s' = emit (st_wl s) new /\ Forall (bounded_rec_full (w_max (st_wl s))) new.
Proof. exact transfer_nosplit_not_accepted. Qed.
Print Assumptions C06_no_split_not_accepted.

(** non-vacuity.  distribute 3.5 to three wells with 12 multi-dispenses requested and max_volume 15:
    4 multi-dispenses (4 * 3.5 = 14 <= 15 < 17.5); a per-well volume of 16 is refused *)
Definition ex_dargs (v : rvol) (md : Z) : distargs :=
  {| d_source_column := 0; d_volume := v; d_diti_reuse := 1; d_multi_disp := md;
     d_liquid_class := PStr "W"; d_label := Some "fill"%string; d_direction := "left_to_right"%string;
     d_src_id := PStr ""; d_src_type := PStr ""; d_dst_id := PStr ""; d_dst_type := PStr "" |}.

Example C06_example_distribute :
  let r := distribute (ex_state 15 true) 0 1 (A1 ["A01"; "B01"; "A02"]%string) (ex_dargs (RVFloat (XQ (7 # 2))) 12) in
  snd r = None /\
  map render (w_recs (st_wl (fst r))) = ["C;fill"; "R;trough;;;1;8;plate;;;1;3;3.5;W;1;4;0"]%string /\
  distribute (ex_state 15 true) 0 1 (A1 ["A01"; "B01"; "A02"]%string) (ex_dargs (RVInt 16) 12)
  = (ex_state 15 true, Some EInvalidOp).
Proof. vm_compute. repeat split. Qed.

(** transfer without auto_split, volumes 10, 40, 5 and max_volume 15: the first pair is executed and its
    records are in the worklist, the second pair charges the source trough (20000 - 10 - 40) and raises
    InvalidOperationError without a record, the third pair is never reached *)
Example C06_example_no_split_second :
  let r := transfer (ex_state 15 false) 0 (A0 "A01"%string) 1 (A1 ["A01"; "B01"; "A02"]%string)
                    (A1 [10; 40; 5]) None (SInt 1) "auto" kw_default in
  In 40 (t_vol (A0 "A01"%string) (A1 ["A01"; "B01"; "A02"]%string) (A1 [10; 40; 5])) /\
  plan false 15 ByDestination (t_triples (A0 "A01"%string) (A1 ["A01"; "B01"; "A02"]%string) (A1 [10; 40; 5]))
  = [Step "A01" "A01" 10; Step "A01" "B01" 40; Step "A01" "A02" 5]%string /\
  snd r = Some EInvalidOp /\
  map render (w_recs (st_wl (fst r))) = ["A;trough;;;1;;10.00;;;;"; "D;plate;;;1;;10.00;;;;"; "W1;"]%string /\
  map lw_vols (st_lw (fst r)) = [[19950; 5000]; [60; 50; 50; 50; 50; 50]].
Proof. vm_compute. split; [right; left; reflexivity|repeat split]. Qed.

(** the exception of an oversized pair is NOT always InvalidOperationError (so the unconditional reading
    "raises InvalidOperationError" of the property is false of model and code): 45 > max_volume 15 from a
    plate well holding 50 with min_volume 10 - the labware refuses the removal first *)
Example C06_example_no_split_underflow_first :
  let r := transfer (ex_state 15 false) 1 (A0 "A01"%string) 0 (A0 "A01"%string) (A0 45) None (SInt 1)
                    "auto" kw_default in
  snd r = Some EUnderflow /\ w_recs (st_wl (fst r)) = [] /\
  map lw_vols (st_lw (fst r)) = [[20000; 5000]; [50; 50; 50; 50; 50; 50]].
Proof. vm_compute. repeat split. Qed.

(** the hypothesis 0 < max_volume of [C06_never_refused_transfer] cannot be dropped in the MODEL, whose
    domain is max_volume > 0 (Model/Partition.v): with max_volume 0 the model's [partition_volume] returns
    the unsplit volume (x / 0 = 0 in Q), which is then refused.  (In the library the division raises
    ZeroDivisionError instead; max_volume = 0 is outside the domain of the correspondence check.) *)
Example C06_example_max_zero :
  partition_volume 10 0 = [10] /\
  snd (transfer (ex_state 0 true) 0 (A0 "A01"%string) 1 (A1 ["A01"]%string) (A1 [10]) None (SInt 1)
                "auto" kw_default) = Some EInvalidOp.
Proof. vm_compute. split; reflexivity. Qed.
