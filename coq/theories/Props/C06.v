(** C06 — with auto_split, a transfer volume v > 0 is emitted as exactly
    max(1, ceil(v / max_volume)) steps, each with 0 < step <= max_volume, adding up to v (nothing for
    v = 0), so an automatically split transfer is never refused for being too large; with auto_split
    disabled a step above max_volume raises InvalidOperationError; a reagent distribution never plans
    more multi-dispenses per aspiration than fit into max_volume.
    Statements only; proofs live in Proofs/PartitionProofs.v (partition_volume) and
    Proofs/PlanProofs.v (transfer level; the reagent_distribution part re-exports
    Proofs/RecordsProofs.v). *)
From Robo Require Import Prelude Str Wells Utils Labware Tips Records Partition Params Worklist
  PartitionProofs LabwareProofs PlanProofs.

Local Open Scope Q_scope.

(** number of steps, bounds of every step, and the sum, for every v > 0 and max_volume > 0 *)
Theorem C06_partition : forall (v m : Q), 0 < m -> 0 < v ->
  let l := partition_volume v m in
  Z.of_nat (length l) = Z.max 1 (Qceiling (v / m)) /\
  Forall (fun x => 0 < x /\ x <= m) l /\
  Qsum l == v.
Proof. exact partition_volume_spec. Qed.
Print Assumptions C06_partition.

(** nothing is emitted for v = 0 *)
Theorem C06_zero : forall (v m : Q), v == 0 -> partition_volume v m = [].
Proof. exact partition_volume_zero. Qed.
Print Assumptions C06_zero.

(** no admissible split is shorter *)
Theorem C06_minimal : forall (v m : Q) (l : list Q), 0 < m -> 0 < v ->
  Forall (fun x => x <= m) l -> Qsum l == v ->
  (length (partition_volume v m) <= length l)%nat.
Proof. exact partition_volume_minimal. Qed.
Print Assumptions C06_minimal.

(** non-vacuity: 2000 with max 950 (integer step), 1.2 with max 0.5 (step capped by max_volume),
    a volume below and a volume equal to max_volume *)
Example C06_example :
  partition_volume 2000 950 = [667; 667; 666] /\
  partition_volume (12 # 10) (1 # 2) = [1 # 2; 1 # 2; 1 # 5] /\
  partition_volume (3 # 2) 950 = [3 # 2] /\
  partition_volume 950 950 = [950] /\
  partition_volume 0 950 = [].
Proof. vm_compute. repeat split. Qed.

(* ------------------------------------------------------------------ transfer level *)

(** the (source, destination, volume) of the steps of a plan, in order *)
Definition steps_of (acts : list action) : list triple :=
  flat_map (fun a => match a with Step s d v => [(s, d, v)] | Commit => [] end) acts.

Definition sd_eqb (s d : string) (t : triple) : bool :=
  String.eqb (fst (fst t)) s && String.eqb (snd (fst t)) d.

(** if the pair (s, d) is requested by exactly one triple (s, d, v), the planned steps of that pair
    are, in order, [partition_volume v max_volume] ... *)
Theorem C06_transfer_split : forall (m : Q) (mode : pmode) (triples : list triple) (s d : string) (v : Q),
  0 < m -> 0 <= v ->
  filter (sd_eqb s d) triples = [(s, d, v)] ->
  map snd (filter (sd_eqb s d) (steps_of (plan true m mode triples))) = partition_volume v m.
Proof. exact transfer_split. Qed.
Print Assumptions C06_transfer_split.

(** ... hence exactly max(1, ceil(v / max_volume)) pairs, each in (0, max_volume], adding up to v ... *)
Theorem C06_transfer_split_spec : forall (m : Q) (mode : pmode) (triples : list triple) (s d : string) (v : Q),
  0 < m -> 0 < v ->
  filter (sd_eqb s d) triples = [(s, d, v)] ->
  let l := map snd (filter (sd_eqb s d) (steps_of (plan true m mode triples))) in
  Z.of_nat (length l) = Z.max 1 (Qceiling (v / m)) /\
  Forall (fun x => 0 < x /\ x <= m) l /\
  Qsum l == v.
Proof. exact transfer_split_spec. Qed.
Print Assumptions C06_transfer_split_spec.

(** ... and nothing for v = 0 *)
Theorem C06_transfer_zero : forall (m : Q) (mode : pmode) (triples : list triple) (s d : string) (v : Q),
  0 < m -> v == 0 ->
  filter (sd_eqb s d) triples = [(s, d, v)] ->
  filter (sd_eqb s d) (steps_of (plan true m mode triples)) = [].
Proof. exact transfer_split_zero. Qed.
Print Assumptions C06_transfer_zero.

(** with auto_split no planned step is above max_volume, so the volume check of the A/D records
    never raises InvalidOperationError for it (and accepts it if max_volume is within the format) *)
Theorem C06_never_refused : forall (m : Q) (mode : pmode) (triples : list triple) (s d : string) (v : Q),
  0 < m -> In (Step s d v) (plan true m mode triples) ->
  check_volume (PV (XQ v)) (Some m) <> Err EInvalidOp /\
  (m <= max_tecan_volume -> check_volume (PV (XQ v)) (Some m) = Ok v).
Proof. exact plan_never_refused. Qed.
Print Assumptions C06_never_refused.

(** without auto_split: an A or D record above max_volume raises InvalidOperationError (the rack label
    and the position are checked first, everything else later) ... *)
Theorem C06_no_split : forall (w : wstate) (a : adargs) (label : string) (pos : Z) (v : Q),
  text_ok true (x_rack_label a) = Some label -> check_position (x_position a) = Ok pos ->
  x_volume a = PV (XQ v) -> 0 <= v -> v <= max_tecan_volume -> w_max w < v ->
  aspirate_well w a = (w, Some EInvalidOp) /\ dispense_well w a = (w, Some EInvalidOp).
Proof. exact aspirate_well_too_large. Qed.
Print Assumptions C06_no_split.

(** ... the plan contains the unsplit volume ... *)
Theorem C06_no_split_plan : forall (m : Q) (mode : pmode) (triples : list triple) (s d : string) (v : Q),
  In (s, d, v) triples -> 0 < v -> In (Step s d v) (plan false m mode triples).
Proof. exact plan_nosplit_contains. Qed.
Print Assumptions C06_no_split_plan.

Theorem C06_no_split_pair : forall (m : Q) (mode : pmode) (triples : list triple) (s d : string) (v : Q),
  filter (sd_eqb s d) triples = [(s, d, v)] ->
  filter (sd_eqb s d) (steps_of (plan false m mode triples)) = if Qltb 0 v then [(s, d, v)] else [].
Proof. exact transfer_nosplit_pair. Qed.
Print Assumptions C06_no_split_pair.

(** ... and executing such a step raises InvalidOperationError once the source labware has accepted
    the removal (the source labware is already charged, no record is written) *)
Theorem C06_no_split_step : forall (s : state) (ks kd : nat) (sw dw : string) (v : Q) (ws : scheme)
    (kw : kwargs) (L L' : labware) (pos : nat),
  nth_error (st_lw s) ks = Some L ->
  remove L (A1 [sw]) (A1 [XQ v]) None = (L', None) ->
  device_position (w_dev (st_wl s)) (lw_geom L) sw = Ok pos ->
  text_ok true (PStr (lw_name L)) = Some (lw_name L) ->
  0 < v -> v <= max_tecan_volume -> w_max (st_wl s) < v ->
  exec_step s ks kd sw dw v ws kw = (set_lw s ks L', Some EInvalidOp).
Proof. exact exec_step_too_large. Qed.
Print Assumptions C06_no_split_step.

(** reagent_distribution: the multi-dispense count of the emitted R record times the volume fits
    into max_volume; it is the requested count if that fits, otherwise floor(max_volume / volume),
    the largest count that fits *)
Theorem C06_multi_disp : forall (w : wstate) (a : rdargs) (w' : wstate),
  reagent_distribution w a = (w', None) ->
  exists f,
    w_recs w' = (w_recs w ++ [RR f])%list /\
    match rd_volume a with
    | RVInt z => r_volume f = PyI z
    | RVFloat x => exists q, x = XQ q /\ r_volume f = PyF q
    | RVBad => False
    end /\
    0 <= pynum_q (r_volume f) /\ pynum_q (r_volume f) <= w_max w /\
    inject_Z (r_multi_disp f) * pynum_q (r_volume f) <= w_max w /\
    (inject_Z (rd_multi_disp a) * pynum_q (r_volume f) <= w_max w -> r_multi_disp f = rd_multi_disp a) /\
    (w_max w < inject_Z (rd_multi_disp a) * pynum_q (r_volume f) ->
       r_multi_disp f = Qfloor (w_max w / pynum_q (r_volume f)) /\
       w_max w < inject_Z (r_multi_disp f + 1) * pynum_q (r_volume f)).
Proof. exact reagent_distribution_multi. Qed.
Print Assumptions C06_multi_disp.

(** non-vacuity: 40 from A01 to A01 with max_volume 15 is planned as 14 + 14 + 12; without auto_split
    the step of 40 is executed and refused *)
Example C06_example_transfer :
  let triples := [("A01", "A01", 40); ("A01", "B01", 10); ("A01", "A02", 5)]%string in
  filter (sd_eqb "A01" "A01") triples = [("A01", "A01", 40)]%string /\
  map snd (filter (sd_eqb "A01" "A01") (steps_of (plan true 15 ByDestination triples))) = [14; 14; 12] /\
  partition_volume 40 15 = [14; 14; 12] /\
  plan false 15 ByDestination triples
  = [Step "A01" "A01" 40; Step "A01" "B01" 10; Step "A01" "A02" 5]%string.
Proof. vm_compute. repeat split. Qed.

Definition ex_state (mx : Q) (autosplit : bool) : state :=
  {| st_lw := [ex_trough; ex_plate];
     st_wl := {| w_recs := []; w_max := mx; w_autosplit := autosplit; w_diti := false; w_dev := Evo |} |}.

Example C06_example_refused :
  snd (transfer (ex_state 15 false) 0 (A0 "A01"%string) 1 (A1 ["A01"; "B01"; "A02"]%string)
                (A1 [40; 10; 5]) None (SInt 1) "auto" kw_default) = Some EInvalidOp /\
  snd (transfer (ex_state 15 true) 0 (A0 "A01"%string) 1 (A1 ["A01"; "B01"; "A02"]%string)
                (A1 [40; 10; 5]) None (SInt 1) "auto" kw_default) = None /\
  snd (exec_step (ex_state 15 false) 0 1 "A01" "A01" 40 (SInt 1) kw_default) = Some EInvalidOp /\
  snd (remove ex_trough (A1 ["A01"]%string) (A1 [XQ 40]) None) = None /\
  device_position Evo (lw_geom ex_trough) "A01" = Ok 1%nat /\
  text_ok true (PStr (lw_name ex_trough)) = Some (lw_name ex_trough) /\
  aspirate_well (st_wl (ex_state 15 false)) (ad_of_kw "trough" 1 40 kw_default)
  = (st_wl (ex_state 15 false), Some EInvalidOp).
Proof. vm_compute. repeat split. Qed.

(** multi-dispense: 12 x 100 does not fit into 950, 9 x 100 does *)
Example C06_example_multi :
  let a := {| rd_src_label := PStr "src"; rd_src_start := PInt 1; rd_src_end := PInt 8;
              rd_dst_label := PStr "dst"; rd_dst_start := PInt 1; rd_dst_end := PInt 96;
              rd_volume := RVInt 100; rd_diti_reuse := 1; rd_multi_disp := 12; rd_exclude := None;
              rd_liquid_class := PStr ""; rd_direction := "left_to_right";
              rd_src_id := PStr ""; rd_src_type := PStr ""; rd_dst_id := PStr ""; rd_dst_type := PStr "" |}%string in
  map render (w_recs (fst (reagent_distribution (st_wl (ex_state 950 true)) a)))
  = ["R;src;;;1;8;dst;;;1;96;100;;1;9;0"]%string.
Proof. vm_compute. repeat split. Qed.
