(** C06 (volume-splitting part) — with auto_split, a transfer volume v > 0 is emitted as exactly
    max(1, ceil(v / max_volume)) steps, each with 0 < step <= max_volume, adding up to v.
    Statements only; proofs live in Proofs/PartitionProofs.v. *)
From Robo Require Import Prelude Partition PartitionProofs.

Local Open Scope Q_scope.

(** number of steps, bounds of every step, and the sum, for every v > 0 and max_volume > 0 *)
Theorem C06_partition : forall (v m : Q), 0 < m -> 0 < v ->
  let l := partition_volume v m in
  Z.of_nat (length l) = Z.max 1 (Qceiling (v / m)) /\
  Forall (fun x => 0 < x /\ x <= m) l /\
  Qsum l == v.
Proof. exact partition_volume_spec. Qed.
Print Assumptions C06_partition.

(** nothing is emitted for v = 0 *)
Theorem C06_zero : forall (v m : Q), v == 0 -> partition_volume v m = [].
Proof. exact partition_volume_zero. Qed.
Print Assumptions C06_zero.

(** no admissible split is shorter *)
Theorem C06_minimal : forall (v m : Q) (l : list Q), 0 < m -> 0 < v ->
  Forall (fun x => x <= m) l -> Qsum l == v ->
  (length (partition_volume v m) <= length l)%nat.
Proof. exact partition_volume_minimal. Qed.
Print Assumptions C06_minimal.

(** non-vacuity: 2000 with max 950 (integer step), 1.2 with max 0.5 (step capped by max_volume),
    a volume below and a volume equal to max_volume *)
Example C06_example :
  partition_volume 2000 950 = [667; 667; 666] /\
  partition_volume (12 # 10) (1 # 2) = [1 # 2; 1 # 2; 1 # 5] /\
  partition_volume (3 # 2) 950 = [3 # 2] /\
  partition_volume 950 950 = [950] /\
  partition_volume 0 950 = [].
Proof. vm_compute. repeat split. Qed.
