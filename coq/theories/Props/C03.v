(** C03 — the accumulated worklist is executable within the volume limits at every moment, up to and
    including the first exception: replaying the records written so far from the initial labware contents
    with the CHECKED interpreter ([interp true] of Spec/Robot.v: an A or R step that leaves a well below its
    min_volume, or a D step that takes a well above its max_volume, is refused) never fails, and no single
    A / D / R step exceeds the worklist's max_volume.  A pipetting step that the volume checks refuse is never
    present in the worklist; without auto_split an oversized step raises InvalidOperationError and nothing
    is emitted.  Statements only; proofs live in Proofs/RefinementProofs.v and Proofs/SafetyExtraProofs.v.

    KNOWN FINDING F20 (a genuine defect of the library, see [C03_prefix_safe_duplicate_positions_refuted]):
    the replay clause is FALSE for programs that contain a [distribute] whose destination wells share one
    device position (the same well named twice, on either device; on a Fluent several virtual rows of one
    trough column).  The call is accepted, the Labware objects receive one dispense per NAMED well, the R
    record dispenses once per POSITION, and a later accepted call can take the replayed well below its
    min_volume.  The replay theorems for [distribute] and for programs are therefore proved only under the
    additional hypothesis [dst_positions_distinct] and carry the suffix [_partial].

    Definitions used (Proofs/RefinementProofs.v; see also Props/C01.v):
    [sim s rb]: the robot's racks correspond to the tracked labware (same frames, volumes [==]);
    [good_state s] = [wf_state s], labware names pairwise distinct, device Evo or Fluent;
    [between s0 s1 rb]: the racks of [rb] have the names / geometry / limits of the labware of [s1], and in
      every well the robot's volume lies between the tracked volume in [s0] and the tracked volume in [s1];
    [bounded_rec m r]: if [r] is an A or D record then 0 <= ad_volume <= m;
    [emits_bounded w w']: [w' = emit w new] for some [new] with [bounded_rec (w_max w)] for all of [new];
    [bounded_rec_full m r] (Proofs/SafetyExtraProofs.v): [bounded_rec m r], and if [r] is an R record then
      0 <= r_volume <= m and r_multi_disp * r_volume <= m (the volume aspirated for one round of
      multi-dispenses fits into max_volume); it says nothing about an [RCmd] record (EVOware script command):
      the volumes of a script command are checked against max_volume by [evo_command] (C13: C13_parse_fields /
      C13_agree_text relate the slots of the command to the checked volumes);
    [emits_full w w']: as [emits_bounded] with [bounded_rec_full];
    [quiet r]: [r] is not an A, D or R record;
    [wl_op], [op_ok], [distribute_dev_ok], [dst_positions_distinct]: as in C01 (the Fluent restriction of
      distribute is known finding F12).

    Why a failed call still replays: records are emitted only after the corresponding [remove] / [add] has
    accepted, with the same wells and volumes in the same order; when the call fails midway the emitted
    records are a prefix of the updates the tracking has applied, and the replayed volume of every well
    equals a tracked intermediate volume that passed the check. *)
From Robo Require Import Prelude Str Wells Utils Labware Tips Records Partition Params Worklist EvoCmd
  Program Invariants Robot LabwareProofs PlanProofs RefinementProofs SafetyExtraProofs.
#[local] Open Scope Q_scope.

(* ------------------------------------------------------------------ no step above max_volume *)

(** an accepted [aspirate_well] / [dispense_well] appends exactly one record, of a volume within
    [0, max_volume]; a rejected one appends nothing *)
Theorem C03_steps_bounded_aspirate_well : forall w a w' e, aspirate_well w a = (w', e) ->
  match e with
  | None => exists f, w' = emit w [RA f] /\ 0 <= ad_volume f /\ ad_volume f <= w_max w
  | Some _ => w' = w
  end.
Proof. exact aspirate_well_bounded. Qed.
Print Assumptions C03_steps_bounded_aspirate_well.

Theorem C03_steps_bounded_dispense_well : forall w a w' e, dispense_well w a = (w', e) ->
  match e with
  | None => exists f, w' = emit w [RD f] /\ 0 <= ad_volume f /\ ad_volume f <= w_max w
  | Some _ => w' = w
  end.
Proof. exact dispense_well_bounded. Qed.
Print Assumptions C03_steps_bounded_dispense_well.

(** every operation of a program (all of them, accepted or rejected) only appends records, and every A / D
    record it appends is within [0, max_volume] *)
Theorem C03_step_emits : forall s o s' e, step s o = (s', e) -> emits_bounded (st_wl s) (st_wl s').
Proof. exact step_emits. Qed.
Print Assumptions C03_step_emits.

(** hence for every program, started on an empty worklist *)
Theorem C03_steps_bounded : forall s ops, w_recs (st_wl s) = [] ->
  w_max (st_wl (fst (run s ops))) = w_max (st_wl s) /\
  Forall (bounded_rec (w_max (st_wl s))) (w_recs (st_wl (fst (run s ops)))) /\
  step_volumes_le (w_max (st_wl s)) (w_recs (st_wl (fst (run s ops)))).
Proof. exact run_steps_bounded. Qed.
Print Assumptions C03_steps_bounded.

(** the same including the R records of [distribute] / [reagent_distribution]: per record, the volume of
    one dispense is within [0, max_volume] and multi-dispense count * volume <= max_volume.  Every
    operation of a program, whatever its outcome ... *)
Theorem C03_step_emits_full : forall s o s' e, step s o = (s', e) -> emits_full (st_wl s) (st_wl s').
Proof. exact step_full. Qed.
Print Assumptions C03_step_emits_full.

(** ... hence every record of every worklist reachable from an empty one: all calls accepted, some
    rejected and the script continued, or stopped at the first exception ([ops] is any prefix) *)
Theorem C03_steps_bounded_full : forall s ops, w_recs (st_wl s) = [] ->
  w_max (st_wl (fst (run s ops))) = w_max (st_wl s) /\
  Forall (bounded_rec_full (w_max (st_wl s))) (w_recs (st_wl (fst (run s ops)))).
Proof. exact run_records_bounded_full. Qed.
Print Assumptions C03_steps_bounded_full.

(** ... and from a worklist that already holds bounded records *)
Theorem C03_steps_bounded_full_from : forall s ops,
  Forall (bounded_rec_full (w_max (st_wl s))) (w_recs (st_wl s)) ->
  Forall (bounded_rec_full (w_max (st_wl s))) (w_recs (st_wl (fst (run s ops)))).
Proof. exact run_records_bounded_full_from. Qed.
Print Assumptions C03_steps_bounded_full_from.

(** [bounded_rec_full] is [bounded_rec] plus the R case *)
Theorem C03_bounded_full_weaken : forall m r, bounded_rec_full m r -> bounded_rec m r.
Proof. exact bounded_rec_full_weaken. Qed.
Print Assumptions C03_bounded_full_weaken.

(** an oversized step is refused with InvalidOperationError and nothing is appended ([prepare_ad a None]:
    the arguments are acceptable when no max_volume is imposed) ... *)
Theorem C03_no_split_refused : forall w a v f0, x_volume a = PV (XQ v) -> w_max w < v ->
  prepare_ad a None = Ok f0 -> aspirate_well w a = (w, Some EInvalidOp).
Proof. exact aspirate_well_refused. Qed.
Print Assumptions C03_no_split_refused.

Theorem C03_no_split_refused_dispense : forall w a v f0, x_volume a = PV (XQ v) -> w_max w < v ->
  prepare_ad a None = Ok f0 -> dispense_well w a = (w, Some EInvalidOp).
Proof. exact dispense_well_refused. Qed.
Print Assumptions C03_no_split_refused_dispense.

(** ... and whatever the other arguments are, a volume above max_volume appends nothing *)
Theorem C03_oversized_nothing : forall w a v, x_volume a = PV (XQ v) -> w_max w < v ->
  exists e, aspirate_well w a = (w, Some e).
Proof. exact aspirate_well_over_nothing. Qed.
Print Assumptions C03_oversized_nothing.

(** one pipetting pair of a transfer whose volume is above max_volume: the call fails (with whatever
    exception comes first: the source labware is charged before the volume check) and the worklist is
    unchanged *)
Theorem C03_oversized_pair_nothing : forall s ks kd sw dw v ws kw, 0 < v -> w_max (st_wl s) < v ->
  exists s1 e, exec_step s ks kd sw dw v ws kw = (s1, Some e) /\ st_wl s1 = st_wl s.
Proof. exact exec_step_oversized. Qed.
Print Assumptions C03_oversized_pair_nothing.

(** a whole transfer without auto_split that contains a volume above max_volume is never accepted, and
    what it has appended when it stops (the records of the pairs planned before the first oversized one)
    is within max_volume; the full case analysis is [C06_no_split_refused_transfer] *)
Theorem C03_no_split_transfer_not_accepted : forall s ks swells kd dwells vols label ws pb kw s' e v,
  w_autosplit (st_wl s) = false -> In v (t_vol swells dwells vols) -> 0 < v -> w_max (st_wl s) < v ->
  transfer s ks swells kd dwells vols label ws pb kw = (s', e) ->
  e <> None /\
  exists new, st_wl s' = emit (st_wl s) new /\ Forall (bounded_rec_full (w_max (st_wl s))) new.
Proof. exact transfer_nosplit_not_accepted. Qed.
Print Assumptions C03_no_split_transfer_not_accepted.

(* ------------------------------------------------------------------ emitted only after the check: one call *)

(** [aspirate], any outcome: the appended records replay under the checked interpreter; after an accepted
    call the robot corresponds to the new state; after a rejected one it lies between the state before and
    the state after the call (the tracking is ahead of the file) *)
Theorem C03_emit_after_check_aspirate : forall s k wells vols label kw s' e rb,
  good_state s -> sim s rb -> aspirate s k wells vols label kw = (s', e) ->
  exists new rb', st_wl s' = emit (st_wl s) new /\
    interp true (w_dev (st_wl s)) rb new = Some rb' /\
    (e = None -> sim s' rb') /\ between s s' rb'.
Proof. exact aspirate_replay. Qed.
Print Assumptions C03_emit_after_check_aspirate.

Theorem C03_emit_after_check_dispense : forall s k wells vols label comps kw s' e rb,
  good_state s -> sim s rb -> dispense s k wells vols label comps kw = (s', e) ->
  exists new rb', st_wl s' = emit (st_wl s) new /\
    interp true (w_dev (st_wl s)) rb new = Some rb' /\
    (e = None -> sim s' rb') /\ between s s' rb'.
Proof. exact dispense_replay. Qed.
Print Assumptions C03_emit_after_check_dispense.

(** direction of [between]: tracked volumes only fall in an aspirate and only rise in a dispense, so after
    a failed aspirate the replayed volume of a well is >= the tracked one, after a failed dispense <= *)
Theorem C03_aspirate_down : forall s k wells vols label kw s' e, aspirate s k wells vols label kw = (s', e) ->
  forall k' L L', nth_error (st_lw s) k' = Some L -> nth_error (st_lw s') k' = Some L' ->
  forall j, vol_at L' j <= vol_at L j.
Proof. exact aspirate_down. Qed.
Print Assumptions C03_aspirate_down.

Theorem C03_dispense_up : forall s k wells vols label comps kw s' e,
  dispense s k wells vols label comps kw = (s', e) ->
  forall k' L L', nth_error (st_lw s) k' = Some L -> nth_error (st_lw s') k' = Some L' ->
  forall j, vol_at L j <= vol_at L' j.
Proof. exact dispense_up. Qed.
Print Assumptions C03_dispense_up.

(** one pipetting step of a transfer, any outcome; after a failure the robot lies between the states before
    and after the aspirate half, or between the states before and after the dispense half *)
Theorem C03_emit_after_check_exec_step : forall s ks kd sw dw v ws kw s' e rb,
  good_state s -> sim s rb -> exec_step s ks kd sw dw v ws kw = (s', e) ->
  exists new rb', st_wl s' = emit (st_wl s) new /\
    interp true (w_dev (st_wl s)) rb new = Some rb' /\
    (e = None -> sim s' rb') /\
    (between s (fst (aspirate s ks (A0 sw) (A0 (XQ v)) None kw)) rb' \/
     between (fst (aspirate s ks (A0 sw) (A0 (XQ v)) None kw)) s' rb').
Proof. exact exec_step_replay. Qed.
Print Assumptions C03_emit_after_check_exec_step.

(** a whole transfer, any outcome *)
Theorem C03_emit_after_check_transfer : forall s ks swells kd dwells vols label ws pb kw s' e rb,
  good_state s -> sim s rb -> transfer s ks swells kd dwells vols label ws pb kw = (s', e) ->
  exists new rb', st_wl s' = emit (st_wl s) new /\
    interp true (w_dev (st_wl s)) rb new = Some rb' /\ (e = None -> sim s' rb').
Proof. exact transfer_replay. Qed.
Print Assumptions C03_emit_after_check_transfer.

(** [distribute], any outcome: the R record is written last, so a rejected call has appended at most
    comment records and the robot still corresponds to the state BEFORE the call.

    The full statement,
      forall s ks kd dwells a s' e rb, good_state s -> sim s rb -> distribute_dev_ok s ks ->
        distribute s ks kd dwells a = (s', e) ->
        exists new rb', st_wl s' = emit (st_wl s) new /\ interp true (w_dev (st_wl s)) rb new = Some rb' /\
          (e = None -> sim s' rb') /\ (e <> None -> sim s rb' /\ forallb quiet new = true),
    is FALSE of the model and of the code (known finding F20, refuted below).  The theorem proved here adds
    exactly one hypothesis, [dst_positions_distinct s kd dwells]: the device positions of the destination
    well ids are pairwise distinct.  ([distribute_dev_ok] is the restriction of known finding F12.) *)
Theorem C03_emit_after_check_distribute_partial : forall s ks kd dwells a s' e rb,
  good_state s -> sim s rb -> distribute_dev_ok s ks -> dst_positions_distinct s kd dwells ->
  distribute s ks kd dwells a = (s', e) ->
  exists new rb', st_wl s' = emit (st_wl s) new /\
    interp true (w_dev (st_wl s)) rb new = Some rb' /\
    (e = None -> sim s' rb') /\ (e <> None -> sim s rb' /\ forallb quiet new = true).
Proof. exact distribute_replay. Qed.
Print Assumptions C03_emit_after_check_distribute_partial.

(** F20, one call: an accepted [distribute] with all the hypotheses of the full statement; whatever the
    appended records replay to, it is not the tracked state.  Witness: Fluent, source trough S (1 virtual
    row, 1000), destination trough D (4 virtual rows, empty), distribute 20 to ["A01"; "B01"]: the record
    is "R;S;;;1;1;D;;;1;1;20;W;1;1;0" (one dispense of 20 into position 1), the tracking holds 40 in D *)
Theorem C03_emit_after_check_distribute_refuted : exists s ks kd dwells a s' rb,
  good_state s /\ sim s rb /\ distribute_dev_ok s ks /\ distribute s ks kd dwells a = (s', None) /\
  forall new rb', st_wl s' = emit (st_wl s) new ->
    interp true (w_dev (st_wl s)) rb new = Some rb' -> ~ sim s' rb'.
Proof. exact distribute_replay_duplicate_positions_refuted. Qed.
Print Assumptions C03_emit_after_check_distribute_refuted.

(** the unchecked replay follows from the checked one *)
Theorem C03_checked_implies_unchecked : forall d recs rb rb',
  interp true d rb recs = Some rb' -> interp false d rb recs = Some rb'.
Proof. exact interp_unchecked. Qed.
Print Assumptions C03_checked_implies_unchecked.

(* ------------------------------------------------------------------ programs: up to and including the first failure *)

(** all calls of [ops0] accepted, then one more call with any outcome: what has been written so far
    replays within the limits.

    The full statement of C03 ("all operation sequences, all labware configurations, both devices"; only
    the F12 restriction [distribute_dev_ok] on the source of a Fluent distribute is kept),
      forall s0 ops0 o, good_state s0 -> w_recs (st_wl s0) = [] -> forallb wl_op (ops0 ++ [o]) = true ->
        Forall (fun o => match o with ODistribute ks _ _ _ => distribute_dev_ok s0 ks | _ => True end)
               (ops0 ++ [o]) ->
        Forall (fun e => e = None) (snd (run s0 ops0)) ->
        exists rb, interp true (w_dev (st_wl s0)) (robot_of (st_lw s0))
                     (w_recs (st_wl (fst (run s0 (ops0 ++ [o]))))) = Some rb,
    is FALSE of the model and of the code: known finding F20, refuted by the two theorems that follow.
    The theorem proved here adds exactly one hypothesis: [op_ok s0 o] demands, besides [distribute_dev_ok],
    [dst_positions_distinct s0 kd dwells] for every [ODistribute ks kd dwells a] of the program. *)
Theorem C03_prefix_safe_partial : forall s0 ops0 o,
  good_state s0 -> w_recs (st_wl s0) = [] ->
  forallb wl_op (ops0 ++ [o]) = true -> Forall (op_ok s0) (ops0 ++ [o]) ->
  Forall (fun e => e = None) (snd (run s0 ops0)) ->
  exists rb, interp true (w_dev (st_wl s0)) (robot_of (st_lw s0))
               (w_recs (st_wl (fst (run s0 (ops0 ++ [o]))))) = Some rb.
Proof. exact prefix_safe. Qed.
Print Assumptions C03_prefix_safe_partial.

(** F20 on a Fluent.  State: source trough S (1 virtual row, 1000), destination trough D (4 virtual rows,
    empty, min_volume 0).  Program: distribute 20 to ["A01"; "B01"] of D, then aspirate 30 from "A01" of D.
    Both calls are accepted (the tracking holds 40, then 10, in D); the worklist is
      R;S;;;1;1;D;;;1;1;20;W;1;1;0      (the Fluent numbering gives both virtual rows position 1)
      A;D;;;1;;30.00;;;;
    and replays D to 20 - 30 = -10: the checked interpreter refuses the A record. *)
Theorem C03_prefix_safe_duplicate_positions_refuted : exists s0 ops,
  good_state s0 /\ w_recs (st_wl s0) = [] /\ forallb wl_op ops = true /\
  Forall (fun o => match o with ODistribute ks _ _ _ => distribute_dev_ok s0 ks | _ => True end) ops /\
  Forall (fun e => e = None) (snd (run s0 ops)) /\
  interp true (w_dev (st_wl s0)) (robot_of (st_lw s0)) (w_recs (st_wl (fst (run s0 ops)))) = None.
Proof. exact prefix_safe_duplicate_positions_refuted. Qed.
Print Assumptions C03_prefix_safe_duplicate_positions_refuted.

(** F20 on an EVO, where [distribute_dev_ok] holds for every call: distribute 20 from the trough T4 to the
    plate well "A02" named twice, then aspirate 30 from "A02": records "R;T4;;;1;4;big;;;3;3;20;W;1;1;0" and
    "A;big;;;3;;30.00;;;;", tracked A02 = 10, replayed A02 = -10 *)
Theorem C03_prefix_safe_duplicate_positions_refuted_evo : exists s0 ops,
  good_state s0 /\ w_dev (st_wl s0) = Evo /\ w_recs (st_wl s0) = [] /\ forallb wl_op ops = true /\
  Forall (fun o => match o with ODistribute ks _ _ _ => distribute_dev_ok s0 ks | _ => True end) ops /\
  Forall (fun e => e = None) (snd (run s0 ops)) /\
  interp true (w_dev (st_wl s0)) (robot_of (st_lw s0)) (w_recs (st_wl (fst (run s0 ops)))) = None.
Proof. exact prefix_safe_duplicate_positions_refuted_evo. Qed.
Print Assumptions C03_prefix_safe_duplicate_positions_refuted_evo.

(* ------------------------------------------------------------------ non-vacuity *)

#[local] Open Scope string_scope.

Example C03_example_state : good_state (ex_state Evo).
Proof. apply ex_state_good. discriminate. Qed.

(** a split transfer (2 x 500), then an aspirate whose second volume (1500) is above max_volume 950: the
    tracking has removed both volumes, the A record of the first one is in the worklist, the second is
    refused with InvalidOperationError *)
Definition C03_ex_prog : list op :=
  [OTransfer 0 (A1 ["A01"]) 0 (A1 ["A02"]) (A1 [1000]%Q) None SFlush "auto" kw_default;
   OAspirate 0 (A1 ["A02"; "A01"]) (A1 [XQ 100; XQ 1500]) None kw_default].

Example C03_example_hyps :
  forallb wl_op C03_ex_prog = true /\ Forall (op_ok (ex_state Evo)) C03_ex_prog.
Proof. split; [reflexivity|repeat constructor]. Qed.

Example C03_example_failing_run :
  let r := run (ex_state Evo) C03_ex_prog in
  snd r = [None; Some EInvalidOp] /\
  map render (w_recs (st_wl (fst r))) =
    ["A;big;;;1;;500.00;;;;"; "D;big;;;3;;500.00;;;;"; "F;";
     "A;big;;;1;;500.00;;;;"; "D;big;;;3;;500.00;;;;"; "F;"; "B;"; "A;big;;;3;;100.00;;;;"] /\
  map lw_vols (st_lw (fst r)) = [[500; 900; 100; 0]; [500; 500]]%Q /\
  match interp true Evo (robot_of (st_lw (ex_state Evo))) (w_recs (st_wl (fst r))) with
  | Some rb => map rk_vols (rb_racks rb) = [[2000; 900; 100; 0]; [500; 500]]%Q
  | None => False
  end.
Proof. vm_compute. repeat split; reflexivity. Qed.

(** an underflow in the middle of an aspirate: nothing of the call is in the worklist, the wells before the
    offending one have been changed in the tracking *)
Example C03_example_underflow :
  let r := run (ex_state Evo)
    [OAspirate 0 (A1 ["A01"; "B01"; "A01"]) (A1 [XQ 100; XQ 50; XQ 4000]) None kw_default] in
  snd r = [Some EUnderflow] /\ w_recs (st_wl (fst r)) = [] /\
  map lw_vols (st_lw (fst r)) = [[2900; 0; 50; 0]; [500; 500]]%Q.
Proof. vm_compute. repeat split; reflexivity. Qed.

(** without auto_split an oversized transfer step raises InvalidOperationError and emits nothing *)
Example C03_example_no_split :
  let s := {| st_lw := [ex_big; ex_t4]; st_wl := init_wl Evo 950 false false |} in
  let r := run s [OTransfer 0 (A1 ["A01"]) 0 (A1 ["A02"]) (A1 [1000]%Q) None SFlush "auto" kw_default] in
  snd r = [Some EInvalidOp] /\ w_recs (st_wl (fst r)) = [].
Proof. vm_compute. split; reflexivity. Qed.

(** F20, the two witnesses in full: outcomes, rendered worklist, tracked volumes, checked replay (refused)
    and unchecked replay (a negative volume) *)
Example C03_example_F20_fluent :
  let r := run dup_state dup_prog in
  snd r = [None; None] /\
  map render (w_recs (st_wl (fst r))) = ["R;S;;;1;1;D;;;1;1;20;W;1;1;0"; "A;D;;;1;;30.00;;;;"] /\
  map lw_vols (st_lw (fst r)) = [[960]; [10]]%Q /\
  interp true Fluent (robot_of (st_lw dup_state)) (w_recs (st_wl (fst r))) = None /\
  match interp false Fluent (robot_of (st_lw dup_state)) (w_recs (st_wl (fst r))) with
  | Some rb => map rk_vols (rb_racks rb) = [[980]; [-10]]%Q
  | None => False
  end.
Proof. vm_compute. repeat split; reflexivity. Qed.

Example C03_example_F20_evo :
  let r := run (ex_state Evo) dup_prog_evo in
  snd r = [None; None] /\
  map render (w_recs (st_wl (fst r))) = ["R;T4;;;1;4;big;;;3;3;20;W;1;1;0"; "A;big;;;3;;30.00;;;;"] /\
  map lw_vols (st_lw (fst r)) = [[3000; 10; 100; 0]; [460; 500]]%Q /\
  interp true Evo (robot_of (st_lw (ex_state Evo))) (w_recs (st_wl (fst r))) = None /\
  match interp false Evo (robot_of (st_lw (ex_state Evo))) (w_recs (st_wl (fst r))) with
  | Some rb => map rk_vols (rb_racks rb) = [[3000; -10; 100; 0]; [480; 500]]%Q
  | None => False
  end.
Proof. vm_compute. repeat split; reflexivity. Qed.

(** the hypotheses of [C03_prefix_safe_partial] are satisfiable by a program with a distribute (distinct
    destination positions), and the R record it writes is within max_volume *)
Example C03_example_distribute_ok :
  let p := [ODistribute 1 0 (A1 ["A02"; "B02"]) (ex_dargs 0 20);
            OAspirate 0 (A1 ["A02"]) (A1 [XQ 15]) None kw_default] in
  forallb wl_op p = true /\ snd (run (ex_state Evo) p) = [None; None] /\
  map render (w_recs (st_wl (fst (run (ex_state Evo) p))))
    = ["R;T4;;;1;4;big;;;3;4;20;W;1;1;0"; "A;big;;;3;;15.00;;;;"] /\
  match interp true Evo (robot_of (st_lw (ex_state Evo))) (w_recs (st_wl (fst (run (ex_state Evo) p)))) with
  | Some rb => map rk_vols (rb_racks rb) = [[3000; 5; 100; 20]; [460; 500]]%Q
  | None => False
  end.
Proof. vm_compute. repeat split; reflexivity. Qed.

Example C03_example_distribute_ok_hyps :
  Forall (op_ok (ex_state Evo))
    [ODistribute 1 0 (A1 ["A02"; "B02"]) (ex_dargs 0 20);
     OAspirate 0 (A1 ["A02"]) (A1 [XQ 15]) None kw_default].
Proof.
  constructor; [|constructor; [exact I|constructor]]. split; [left; reflexivity|].
  intros Ld ps HLd Hps. cbn in HLd. injection HLd as <-. vm_compute in Hps. injection Hps as <-.
  constructor; [intros [C|[]]; discriminate|constructor; [intros []|constructor]].
Qed.
