(** C03 — the accumulated worklist is executable within the volume limits at every moment, up to and
    including the first exception: replaying the records written so far from the initial labware contents
    with the CHECKED interpreter ([interp true] of Spec/Robot.v: an A or R step that leaves a well below its
    min_volume, or a D step that takes a well above its max_volume, is refused) never fails, and no single
    A / D step exceeds the worklist's max_volume.  A pipetting step that the volume checks refuse is never
    present in the worklist; without auto_split an oversized step raises InvalidOperationError and nothing
    is emitted.  Statements only; proofs live in Proofs/RefinementProofs.v.

    Definitions used (Proofs/RefinementProofs.v; see also Props/C01.v):
    [sim s rb]: the robot's racks correspond to the tracked labware (same frames, volumes [==]);
    [good_state s] = [wf_state s], labware names pairwise distinct, device Evo or Fluent;
    [between s0 s1 rb]: the racks of [rb] have the names / geometry / limits of the labware of [s1], and in
      every well the robot's volume lies between the tracked volume in [s0] and the tracked volume in [s1];
    [bounded_rec m r]: if [r] is an A or D record then 0 <= ad_volume <= m;
    [emits_bounded w w']: [w' = emit w new] for some [new] with [bounded_rec (w_max w)] for all of [new];
    [quiet r]: [r] is not an A, D or R record;
    [wl_op], [op_ok], [distribute_dev_ok], [dst_positions_distinct]: as in C01 (the Fluent restriction of
      distribute is known finding F12).

    Why a failed call still replays: records are emitted only after the corresponding [remove] / [add] has
    accepted, with the same wells and volumes in the same order; when the call fails midway the emitted
    records are a prefix of the updates the tracking has applied, and the replayed volume of every well
    equals a tracked intermediate volume that passed the check. *)
From Robo Require Import Prelude Str Wells Utils Labware Tips Records Partition Params Worklist EvoCmd
  Program Invariants Robot LabwareProofs RefinementProofs.
#[local] Open Scope Q_scope.

(* ------------------------------------------------------------------ no step above max_volume *)

(** an accepted [aspirate_well] / [dispense_well] appends exactly one record, of a volume within
    [0, max_volume]; a rejected one appends nothing *)
Theorem C03_steps_bounded_aspirate_well : forall w a w' e, aspirate_well w a = (w', e) ->
  match e with
  | None => exists f, w' = emit w [RA f] /\ 0 <= ad_volume f /\ ad_volume f <= w_max w
  | Some _ => w' = w
  end.
Proof. exact aspirate_well_bounded. Qed.
Print Assumptions C03_steps_bounded_aspirate_well.

Theorem C03_steps_bounded_dispense_well : forall w a w' e, dispense_well w a = (w', e) ->
  match e with
  | None => exists f, w' = emit w [RD f] /\ 0 <= ad_volume f /\ ad_volume f <= w_max w
  | Some _ => w' = w
  end.
Proof. exact dispense_well_bounded. Qed.
Print Assumptions C03_steps_bounded_dispense_well.

(** every operation of a program (all of them, accepted or rejected) only appends records, and every A / D
    record it appends is within [0, max_volume] *)
Theorem C03_step_emits : forall s o s' e, step s o = (s', e) -> emits_bounded (st_wl s) (st_wl s').
Proof. exact step_emits. Qed.
Print Assumptions C03_step_emits.

(** hence for every program, started on an empty worklist *)
Theorem C03_steps_bounded : forall s ops, w_recs (st_wl s) = [] ->
  w_max (st_wl (fst (run s ops))) = w_max (st_wl s) /\
  Forall (bounded_rec (w_max (st_wl s))) (w_recs (st_wl (fst (run s ops)))) /\
  step_volumes_le (w_max (st_wl s)) (w_recs (st_wl (fst (run s ops)))).
Proof. exact run_steps_bounded. Qed.
Print Assumptions C03_steps_bounded.

(** an oversized step is refused with InvalidOperationError and nothing is appended ([prepare_ad a None]:
    the arguments are acceptable when no max_volume is imposed) ... *)
Theorem C03_no_split_refused : forall w a v f0, x_volume a = PV (XQ v) -> w_max w < v ->
  prepare_ad a None = Ok f0 -> aspirate_well w a = (w, Some EInvalidOp).
Proof. exact aspirate_well_refused. Qed.
Print Assumptions C03_no_split_refused.

Theorem C03_no_split_refused_dispense : forall w a v f0, x_volume a = PV (XQ v) -> w_max w < v ->
  prepare_ad a None = Ok f0 -> dispense_well w a = (w, Some EInvalidOp).
Proof. exact dispense_well_refused. Qed.
Print Assumptions C03_no_split_refused_dispense.

(** ... and whatever the other arguments are, a volume above max_volume appends nothing *)
Theorem C03_oversized_nothing : forall w a v, x_volume a = PV (XQ v) -> w_max w < v ->
  exists e, aspirate_well w a = (w, Some e).
Proof. exact aspirate_well_over_nothing. Qed.
Print Assumptions C03_oversized_nothing.

(* ------------------------------------------------------------------ emitted only after the check: one call *)

(** [aspirate], any outcome: the appended records replay under the checked interpreter; after an accepted
    call the robot corresponds to the new state; after a rejected one it lies between the state before and
    the state after the call (the tracking is ahead of the file) *)
Theorem C03_emit_after_check_aspirate : forall s k wells vols label kw s' e rb,
  good_state s -> sim s rb -> aspirate s k wells vols label kw = (s', e) ->
  exists new rb', st_wl s' = emit (st_wl s) new /\
    interp true (w_dev (st_wl s)) rb new = Some rb' /\
    (e = None -> sim s' rb') /\ between s s' rb'.
Proof. exact aspirate_replay. Qed.
Print Assumptions C03_emit_after_check_aspirate.

Theorem C03_emit_after_check_dispense : forall s k wells vols label comps kw s' e rb,
  good_state s -> sim s rb -> dispense s k wells vols label comps kw = (s', e) ->
  exists new rb', st_wl s' = emit (st_wl s) new /\
    interp true (w_dev (st_wl s)) rb new = Some rb' /\
    (e = None -> sim s' rb') /\ between s s' rb'.
Proof. exact dispense_replay. Qed.
Print Assumptions C03_emit_after_check_dispense.

(** direction of [between]: tracked volumes only fall in an aspirate and only rise in a dispense, so after
    a failed aspirate the replayed volume of a well is >= the tracked one, after a failed dispense <= *)
Theorem C03_aspirate_down : forall s k wells vols label kw s' e, aspirate s k wells vols label kw = (s', e) ->
  forall k' L L', nth_error (st_lw s) k' = Some L -> nth_error (st_lw s') k' = Some L' ->
  forall j, vol_at L' j <= vol_at L j.
Proof. exact aspirate_down. Qed.
Print Assumptions C03_aspirate_down.

Theorem C03_dispense_up : forall s k wells vols label comps kw s' e,
  dispense s k wells vols label comps kw = (s', e) ->
  forall k' L L', nth_error (st_lw s) k' = Some L -> nth_error (st_lw s') k' = Some L' ->
  forall j, vol_at L j <= vol_at L' j.
Proof. exact dispense_up. Qed.
Print Assumptions C03_dispense_up.

(** one pipetting step of a transfer, any outcome; after a failure the robot lies between the states before
    and after the aspirate half, or between the states before and after the dispense half *)
Theorem C03_emit_after_check_exec_step : forall s ks kd sw dw v ws kw s' e rb,
  good_state s -> sim s rb -> exec_step s ks kd sw dw v ws kw = (s', e) ->
  exists new rb', st_wl s' = emit (st_wl s) new /\
    interp true (w_dev (st_wl s)) rb new = Some rb' /\
    (e = None -> sim s' rb') /\
    (between s (fst (aspirate s ks (A0 sw) (A0 (XQ v)) None kw)) rb' \/
     between (fst (aspirate s ks (A0 sw) (A0 (XQ v)) None kw)) s' rb').
Proof. exact exec_step_replay. Qed.
Print Assumptions C03_emit_after_check_exec_step.

(** a whole transfer, any outcome *)
Theorem C03_emit_after_check_transfer : forall s ks swells kd dwells vols label ws pb kw s' e rb,
  good_state s -> sim s rb -> transfer s ks swells kd dwells vols label ws pb kw = (s', e) ->
  exists new rb', st_wl s' = emit (st_wl s) new /\
    interp true (w_dev (st_wl s)) rb new = Some rb' /\ (e = None -> sim s' rb').
Proof. exact transfer_replay. Qed.
Print Assumptions C03_emit_after_check_transfer.

(** [distribute], any outcome: the R record is written last, so a rejected call has appended at most
    comment records and the robot still corresponds to the state BEFORE the call *)
Theorem C03_emit_after_check_distribute : forall s ks kd dwells a s' e rb,
  good_state s -> sim s rb -> distribute_dev_ok s ks -> dst_positions_distinct s kd dwells ->
  distribute s ks kd dwells a = (s', e) ->
  exists new rb', st_wl s' = emit (st_wl s) new /\
    interp true (w_dev (st_wl s)) rb new = Some rb' /\
    (e = None -> sim s' rb') /\ (e <> None -> sim s rb' /\ forallb quiet new = true).
Proof. exact distribute_replay. Qed.
Print Assumptions C03_emit_after_check_distribute.

(** the unchecked replay follows from the checked one *)
Theorem C03_checked_implies_unchecked : forall d recs rb rb',
  interp true d rb recs = Some rb' -> interp false d rb recs = Some rb'.
Proof. exact interp_unchecked. Qed.
Print Assumptions C03_checked_implies_unchecked.

(* ------------------------------------------------------------------ programs: up to and including the first failure *)

(** all calls of [ops0] accepted, then one more call with any outcome: what has been written so far
    replays within the limits *)
Theorem C03_prefix_safe : forall s0 ops0 o,
  good_state s0 -> w_recs (st_wl s0) = [] ->
  forallb wl_op (ops0 ++ [o]) = true -> Forall (op_ok s0) (ops0 ++ [o]) ->
  Forall (fun e => e = None) (snd (run s0 ops0)) ->
  exists rb, interp true (w_dev (st_wl s0)) (robot_of (st_lw s0))
               (w_recs (st_wl (fst (run s0 (ops0 ++ [o]))))) = Some rb.
Proof. exact prefix_safe. Qed.
Print Assumptions C03_prefix_safe.

(* ------------------------------------------------------------------ non-vacuity *)

#[local] Open Scope string_scope.

Example C03_example_state : good_state (ex_state Evo).
Proof. apply ex_state_good. discriminate. Qed.

(** a split transfer (2 x 500), then an aspirate whose second volume (1500) is above max_volume 950: the
    tracking has removed both volumes, the A record of the first one is in the worklist, the second is
    refused with InvalidOperationError *)
Definition C03_ex_prog : list op :=
  [OTransfer 0 (A1 ["A01"]) 0 (A1 ["A02"]) (A1 [1000]%Q) None SFlush "auto" kw_default;
   OAspirate 0 (A1 ["A02"; "A01"]) (A1 [XQ 100; XQ 1500]) None kw_default].

Example C03_example_hyps :
  forallb wl_op C03_ex_prog = true /\ Forall (op_ok (ex_state Evo)) C03_ex_prog.
Proof. split; [reflexivity|repeat constructor]. Qed.

Example C03_example_failing_run :
  let r := run (ex_state Evo) C03_ex_prog in
  snd r = [None; Some EInvalidOp] /\
  map render (w_recs (st_wl (fst r))) =
    ["A;big;;;1;;500.00;;;;"; "D;big;;;3;;500.00;;;;"; "F;";
     "A;big;;;1;;500.00;;;;"; "D;big;;;3;;500.00;;;;"; "F;"; "B;"; "A;big;;;3;;100.00;;;;"] /\
  map lw_vols (st_lw (fst r)) = [[500; 900; 100; 0]; [500; 500]]%Q /\
  match interp true Evo (robot_of (st_lw (ex_state Evo))) (w_recs (st_wl (fst r))) with
  | Some rb => map rk_vols (rb_racks rb) = [[2000; 900; 100; 0]; [500; 500]]%Q
  | None => False
  end.
Proof. vm_compute. repeat split; reflexivity. Qed.

(** an underflow in the middle of an aspirate: nothing of the call is in the worklist, the wells before the
    offending one have been changed in the tracking *)
Example C03_example_underflow :
  let r := run (ex_state Evo)
    [OAspirate 0 (A1 ["A01"; "B01"; "A01"]) (A1 [XQ 100; XQ 50; XQ 4000]) None kw_default] in
  snd r = [Some EUnderflow] /\ w_recs (st_wl (fst r)) = [] /\
  map lw_vols (st_lw (fst r)) = [[2900; 0; 50; 0]; [500; 500]]%Q.
Proof. vm_compute. repeat split; reflexivity. Qed.

(** without auto_split an oversized transfer step raises InvalidOperationError and emits nothing *)
Example C03_example_no_split :
  let s := {| st_lw := [ex_big; ex_t4]; st_wl := init_wl Evo 950 false false |} in
  let r := run s [OTransfer 0 (A1 ["A01"]) 0 (A1 ["A02"]) (A1 [1000]%Q) None SFlush "auto" kw_default] in
  snd r = [Some EInvalidOp] /\ w_recs (st_wl (fst r)) = [].
Proof. vm_compute. split; reflexivity. Qed.
