(** C09 — every record appended by a worklist method conforms to the Tecan worklist grammar of its record
    type and, decoded by the independent parser of Spec/Gwl.v, returns exactly the arguments supplied;
    a call whose arguments cannot be represented raises and appends nothing.
    Statements only; proofs live in Proofs/RecordsProofs.v, Proofs/TextExtraProofs.v, (program level:
    C09_grammar_run, C09_grammar_run_any) Proofs/GrammarRunProofs.v and (keyword pass-through of aspirate /
    dispense / transfer, last section: C09_aspirate_passthrough .. C09_transfer_passthrough)
    Proofs/PassThroughProofs.v.

    FLOAT PRINTER (REVIEW2 N5) - applies to C09_decimal_value, C09_roundtrip_R_float,
    C09_reagent_float_end_to_end, to the float case of C09_distribute_end_to_end and to the float case of
    C01_run_text_exact / _bound / _checked.  The model's [pyrepr_float] prints the EXACT terminating decimal
    expansion of a float; the library prints the SHORTEST decimal that reads back to the same float (Python
    [repr]; since /repo commit 25036c3 written with numpy.format_float_positional, never in scientific
    notation).  The two texts are the same string whenever the exact expansion has at most 15 significant
    digits - in particular on the domain of the correspondence check (k / 2^e, e <= 10; see
    C09_short_expansion_example) - and differ otherwise (0.1: library "0.1", model the 55-digit expansion,
    C09_long_expansion_example).  The three theorems quantify over ALL non-negative dyadic q and are facts
    about the MODEL's text; they carry over to the library's text only under the side condition "the exact
    expansion of q has at most 15 significant digits", which is not a hypothesis of the Coq statements
    because the Coq proof does not need it.  For a float outside that condition the library's text denotes a
    number within half an ulp (relative 2^-53) of the float, not the float itself (oracle-side fact).

    FINDING F21 (review item M2), FIXED in /repo by commit 26768d9.  [set_diti] did not validate its index and
    [reagent_distribution] validated neither [diti_reuse] nor [multi_disp]; with negative integers they
    appended "S;-1" resp. "R;...;-1;-3;0", which are outside the grammar.  Both methods now raise ValueError
    for a negative (or non-int) value and append nothing (C09_reject_negative_counts), so every record
    appended by a record-level method is inside the grammar (C09_grammar) and the end-to-end theorems
    (C09_set_diti_end_to_end, C09_reagent_end_to_end, C09_reagent_float_end_to_end, C09_distribute_end_to_end)
    carry no hypothesis besides "the call was accepted".  The record-level lemmas about an ARBITRARY [RS i] /
    [RR f] value (C09_roundtrip_simple, C09_fields_simple, C09_roundtrip_R, C09_oneline_R, C09_roundtrip_R_float,
    C09_roundtrip_R_int) legitimately keep the hypothesis [0 <= ...]: a record value with a negative integer is
    not in the grammar (C09_set_diti_grammar); the methods never build one (C09_set_diti_end_to_end,
    C09_reagent_ok: [r_nosep f /\ r_nonneg f] holds of every record [reagent_distribution] appends).

    The value of a written decimal ([dec_val], [frac_val]) is defined in Spec/CmdParse.v. *)
From Robo Require Import Prelude Str Wells Utils Labware Tips Records Params Worklist EvoCmd Program Gwl CmdParse
  RecordsProofs TextExtraProofs RefinementProofs RefinementTextProofs GrammarRunProofs PassThroughProofs.
From Coq Require Import Sorted Permutation.
Local Open Scope string_scope.

(** the text contains no field separator *)
Definition nosep (s : string) : Prop := contains_char ";"%char s = false.
Definition short (s : string) : Prop := (String.length s <= 32)%nat.

(* ------------------------------------------------------------------------------------------ *)
(** ** splitting, decimals *)

(** a line made of separator-free pieces splits into exactly these pieces *)
Theorem C09_split_join : forall (c : ascii) (x : string) (l : list string),
  contains_char c x = false -> Forall (fun y => contains_char c y = false) l ->
  split_on c (join (String c "") (x :: l)) = x :: l.
Proof. exact rc_split_join. Qed.
Print Assumptions C09_split_join.

(** a printed natural consists of digits only and is read back; "ddd.dd" is read back as hundredths *)
Theorem C09_decimal : forall n : N,
  parse_decN (decN n) = Some n /\ all_digits (decN n) = true /\ decN n <> "" /\
  contains_char ";"%char (decN n) = false /\ contains_char "."%char (decN n) = false /\
  parse_cents (fixed_dec n 2) = Some n.
Proof. exact rc_decimal. Qed.
Print Assumptions C09_decimal.

(** [fixed_dec n 2] is n / 100, a point, and n mod 100 written with two digits *)
Theorem C09_fixed_dec2 : forall n : N, exists a b,
  fixed_dec n 2 = decN (n / 100) ++ "." ++ String a (String b "") /\
  parse_decN (String a (String b "")) = Some (n mod 100)%N.
Proof. exact rc_fixed_dec2_shape. Qed.
Print Assumptions C09_fixed_dec2.

(* ------------------------------------------------------------------------------------------ *)
(** ** C09_roundtrip_simple: wash, decontamination, flush, break, comment, set-DiTi records *)

Theorem C09_simple_texts :
  map render [RW None; RW (Some 1%nat); RW (Some 2%nat); RW (Some 3%nat); RW (Some 4%nat); RWD; RF; RB]
  = ["W;"; "W1;"; "W2;"; "W3;"; "W4;"; "WD;"; "F;"; "B;"].
Proof. exact rc_simple_texts. Qed.
Print Assumptions C09_simple_texts.

(** record level; the last clause is about an arbitrary record value [RS i] and holds exactly for [0 <= i]
    (C09_set_diti_grammar below); [set_diti] only appends such records (C09_set_diti_end_to_end) *)
Theorem C09_roundtrip_simple :
  parse_record (render (RW None)) = Some (PW None) /\
  (forall n, (1 <= n <= 4)%nat -> parse_record (render (RW (Some n))) = Some (PW (Some (N.of_nat n)))) /\
  parse_record (render RWD) = Some PWD /\
  parse_record (render RF) = Some PF /\
  parse_record (render RB) = Some PB /\
  (forall t, nosep t -> parse_record (render (RC t)) = Some (PC t)) /\
  (forall i, (0 <= i)%Z -> parse_record (render (RS i)) = Some (PS (Z.to_N i))).
Proof. exact rc_roundtrip_simple. Qed.
Print Assumptions C09_roundtrip_simple.

(** the S record is inside the grammar exactly when the index is not negative *)
Theorem C09_set_diti_grammar : forall i : Z, parse_record (render (RS i)) <> None <-> (0 <= i)%Z.
Proof. exact tx_RS_grammar. Qed.
Print Assumptions C09_set_diti_grammar.

(** two fields each; the second one is empty for the keyword records
    (record level: the S clause is about an arbitrary [RS i], hence [0 <= i]) *)
Theorem C09_fields_simple :
  (forall r, In r [RW None; RW (Some 1%nat); RW (Some 2%nat); RW (Some 3%nat); RW (Some 4%nat); RWD; RF; RB] ->
     exists k, split_on ";"%char (render r) = [k; ""]) /\
  (forall t, nosep t -> split_on ";"%char (render (RC t)) = ["C"; t]) /\
  (forall i, (0 <= i)%Z -> split_on ";"%char (render (RS i)) = ["S"; decN (Z.to_N i)]).
Proof. exact rc_fields_simple. Qed.
Print Assumptions C09_fields_simple.

(* ------------------------------------------------------------------------------------------ *)
(** ** C09_roundtrip_AD: aspirate / dispense records *)

Definition ad_nosep (f : adfields) : Prop :=
  nosep (ad_rack_label f) /\ nosep (ad_rack_id f) /\ nosep (ad_rack_type f) /\ nosep (ad_tube_id f) /\
  nosep (ad_liquid_class f) /\ nosep (ad_forced_rack_type f).

Theorem C09_roundtrip_AD : forall f : adfields,
  ad_nosep f -> (0 <= ad_position f)%Z -> (0 <= ad_volume f)%Q ->
  exists p,
    parse_record (render (RA f)) = Some (PA p) /\ parse_record (render (RD f)) = Some (PD p) /\
    pa_rack_label p = ad_rack_label f /\ pa_rack_id p = ad_rack_id f /\ pa_rack_type p = ad_rack_type f /\
    Z.of_N (pa_position p) = ad_position f /\ pa_tube_id p = ad_tube_id f /\
    Z.of_N (pa_volume_c p) = round2c (ad_volume f) /\
    pa_liquid_class p = ad_liquid_class f /\ pa_tip p = ad_tip f /\
    pa_forced_rack_type p = ad_forced_rack_type f.
Proof. exact rc_roundtrip_AD. Qed.
Print Assumptions C09_roundtrip_AD.

(** the volume written (in hundredths) is within half a hundredth of the requested volume ... *)
Theorem C09_round2c_bound : forall v : Q, (Qabs (inject_Z (round2c v) / 100 - v) <= 1 # 200)%Q.
Proof. exact rc_round2c_bound. Qed.
Print Assumptions C09_round2c_bound.

(** ... and exact when the requested volume has at most two decimals *)
Theorem C09_round2c_exact : forall (v : Q) (z : Z), (v * 100 == inject_Z z)%Q -> round2c v = z.
Proof. exact rc_round2c_exact. Qed.
Print Assumptions C09_round2c_exact.

(** C09_fields_AD: exactly eleven fields; one line: a character that is not a digit, ".", ";", "A", "D"
    (in particular LF = 10 and CR = 13) occurs in the record only if it occurs in a text field *)
Theorem C09_fields_AD : forall f : adfields,
  ad_nosep f -> (0 <= ad_position f)%Z ->
  n_fields (render (RA f)) = 11%nat /\ n_fields (render (RD f)) = 11%nat /\
  forall c, is_digit c = false -> c <> "."%char -> c <> ";"%char -> c <> "A"%char -> c <> "D"%char ->
    contains_char c (ad_rack_label f) = false -> contains_char c (ad_rack_id f) = false ->
    contains_char c (ad_rack_type f) = false -> contains_char c (ad_tube_id f) = false ->
    contains_char c (ad_liquid_class f) = false -> contains_char c (ad_forced_rack_type f) = false ->
    contains_char c (render (RA f)) = false /\ contains_char c (render (RD f)) = false.
Proof. exact rc_fields_AD. Qed.
Print Assumptions C09_fields_AD.

(* ------------------------------------------------------------------------------------------ *)
(** ** C09_prepare_ok: what an accepted aspirate_well / dispense_well call puts into the record *)

(** the record fields are the arguments *)
Definition ad_args (a : adargs) (f : adfields) : Prop :=
  x_rack_label a = PStr (ad_rack_label f) /\ x_rack_id a = PStr (ad_rack_id f) /\
  x_rack_type a = PStr (ad_rack_type f) /\ x_tube_id a = PStr (ad_tube_id f) /\
  x_liquid_class a = PStr (ad_liquid_class f) /\ x_forced a = PStr (ad_forced_rack_type f) /\
  x_position a = PInt (ad_position f) /\ x_volume a = PV (XQ (ad_volume f)) /\
  tip_mask (x_tip a) = Ok (ad_tip f).

(** the record is representable (this includes the hypotheses of C09_roundtrip_AD) *)
Definition ad_valid (f : adfields) (max_volume : option Q) : Prop :=
  ad_nosep f /\
  (short (ad_rack_label f) /\ short (ad_rack_id f) /\ short (ad_rack_type f) /\
   short (ad_forced_rack_type f)) /\
  (0 <= ad_position f)%Z /\
  (0 <= ad_volume f)%Q /\ (ad_volume f <= 7158278)%Q /\
  match max_volume with Some m => (ad_volume f <= m)%Q | None => True end.

Theorem C09_prepare_ok : forall a max f, prepare_ad a max = Ok f -> ad_args a f /\ ad_valid f max.
Proof. exact rc_prepare_ok. Qed.
Print Assumptions C09_prepare_ok.

(** conversely, representable arguments are accepted (so the rejections below are the only ones) *)
Theorem C09_prepare_complete : forall a max f, ad_args a f -> ad_valid f max -> prepare_ad a max = Ok f.
Proof. exact rc_prepare_complete. Qed.
Print Assumptions C09_prepare_complete.

(** arguments -> validation -> text -> independent parser -> the same arguments *)
Theorem C09_ad_end_to_end : forall a max f, prepare_ad a max = Ok f ->
  exists p v,
    parse_record (render (RA f)) = Some (PA p) /\ parse_record (render (RD f)) = Some (PD p) /\
    x_rack_label a = PStr (pa_rack_label p) /\ x_rack_id a = PStr (pa_rack_id p) /\
    x_rack_type a = PStr (pa_rack_type p) /\ x_position a = PInt (Z.of_N (pa_position p)) /\
    x_tube_id a = PStr (pa_tube_id p) /\
    x_volume a = PV (XQ v) /\ Z.of_N (pa_volume_c p) = round2c v /\
    x_liquid_class a = PStr (pa_liquid_class p) /\ tip_mask (x_tip a) = Ok (pa_tip p) /\
    x_forced a = PStr (pa_forced_rack_type p).
Proof. exact rc_ad_end_to_end. Qed.
Print Assumptions C09_ad_end_to_end.

(* ------------------------------------------------------------------------------------------ *)
(** ** C09_reject: unrepresentable arguments of aspirate_well / dispense_well *)

(** a separator in any of the six text fields *)
Theorem C09_reject_separator : forall a max s,
  contains_char ";"%char s = true ->
  x_rack_label a = PStr s \/ x_rack_id a = PStr s \/ x_rack_type a = PStr s \/
  x_tube_id a = PStr s \/ x_liquid_class a = PStr s \/ x_forced a = PStr s ->
  exists e, prepare_ad a max = Err e.
Proof. exact rc_reject_separator. Qed.
Print Assumptions C09_reject_separator.

(** a text argument that is not a str *)
Theorem C09_reject_nonstr : forall a max,
  x_rack_label a = PNotStr \/ x_rack_id a = PNotStr \/ x_rack_type a = PNotStr \/
  x_tube_id a = PNotStr \/ x_liquid_class a = PNotStr \/ x_forced a = PNotStr ->
  exists e, prepare_ad a max = Err e.
Proof. exact rc_reject_nonstr. Qed.
Print Assumptions C09_reject_nonstr.

(** rack label, rack ID, rack type or forced rack type longer than 32 characters *)
Theorem C09_reject_long : forall a max s,
  (32 < String.length s)%nat ->
  x_rack_label a = PStr s \/ x_rack_id a = PStr s \/ x_rack_type a = PStr s \/ x_forced a = PStr s ->
  exists e, prepare_ad a max = Err e.
Proof. exact rc_reject_long. Qed.
Print Assumptions C09_reject_long.

(** the rack label is checked first: a bad label is always a ValueError *)
Theorem C09_reject_label : forall a max,
  match x_rack_label a with
  | PNotStr => True
  | PStr s => contains_char ";"%char s = true \/ (true = true /\ (32 < String.length s)%nat)
  end ->
  prepare_ad a max = Err EReject.
Proof. exact rc_reject_label. Qed.
Print Assumptions C09_reject_label.

(** a negative or non-int position: ValueError *)
Theorem C09_reject_position : forall a max,
  match x_position a with PInt z => (z < 0)%Z | PNotInt => True end ->
  prepare_ad a max = Err EReject.
Proof. exact rc_reject_position. Qed.
Print Assumptions C09_reject_position.

(** a negative, NaN, infinite, non-numeric or oversized volume: ValueError *)
Theorem C09_reject_volume : forall a max,
  match x_volume a with PV (XQ q) => (q < 0)%Q \/ (7158278 < q)%Q | _ => True end ->
  prepare_ad a max = Err EReject.
Proof. exact rc_reject_volume. Qed.
Print Assumptions C09_reject_volume.

(** a volume above max_volume is rejected; it is an InvalidOperationError exactly when the arguments checked
    before it (rack label, position) and the volume itself are otherwise fine *)
Theorem C09_reject_over_max_any : forall a m q, x_volume a = PV (XQ q) -> (m < q)%Q ->
  exists e, prepare_ad a (Some m) = Err e.
Proof. exact rc_reject_over_max_any. Qed.
Print Assumptions C09_reject_over_max_any.

Theorem C09_reject_over_max : forall a m,
  prepare_ad a (Some m) = Err EInvalidOp <->
  (exists s, text_ok true (x_rack_label a) = Some s) /\ (exists z, x_position a = PInt z /\ (0 <= z)%Z) /\
  exists q, x_volume a = PV (XQ q) /\ (0 <= q)%Q /\ (q <= 7158278)%Q /\ (m < q)%Q.
Proof. exact rc_reject_over_max. Qed.
Print Assumptions C09_reject_over_max.

(** an invalid tip argument *)
Theorem C09_reject_tip : forall a max e', tip_mask (x_tip a) = Err e' -> exists e, prepare_ad a max = Err e.
Proof. exact rc_reject_tip. Qed.
Print Assumptions C09_reject_tip.

(** the exception is a ValueError or an InvalidOperationError *)
Theorem C09_reject_classes : forall a max e, prepare_ad a max = Err e -> e = EReject \/ e = EInvalidOp.
Proof. exact rc_prepare_err_two. Qed.
Print Assumptions C09_reject_classes.

(** on the worklist: a raising call appends nothing, an accepted call appends exactly the validated record *)
Theorem C09_ad_worklist : forall w a w',
  (forall e, aspirate_well w a = (w', Some e) -> w' = w /\ prepare_ad a (Some (w_max w)) = Err e) /\
  (aspirate_well w a = (w', None) ->
     exists f, prepare_ad a (Some (w_max w)) = Ok f /\ w_recs w' = (w_recs w ++ [RA f])%list) /\
  (forall e, dispense_well w a = (w', Some e) -> w' = w /\ prepare_ad a (Some (w_max w)) = Err e) /\
  (dispense_well w a = (w', None) ->
     exists f, prepare_ad a (Some (w_max w)) = Ok f /\ w_recs w' = (w_recs w ++ [RD f])%list).
Proof. exact rc_ad_worklist. Qed.
Print Assumptions C09_ad_worklist.

(** method call -> appended record -> text -> parser -> the arguments of the call *)
Theorem C09_aspirate_end_to_end : forall w a w', aspirate_well w a = (w', None) ->
  exists f p v,
    w_recs w' = (w_recs w ++ [RA f])%list /\ parse_record (render (RA f)) = Some (PA p) /\
    x_rack_label a = PStr (pa_rack_label p) /\ x_rack_id a = PStr (pa_rack_id p) /\
    x_rack_type a = PStr (pa_rack_type p) /\ x_position a = PInt (Z.of_N (pa_position p)) /\
    x_tube_id a = PStr (pa_tube_id p) /\
    x_volume a = PV (XQ v) /\ Z.of_N (pa_volume_c p) = round2c v /\
    x_liquid_class a = PStr (pa_liquid_class p) /\ tip_mask (x_tip a) = Ok (pa_tip p) /\
    x_forced a = PStr (pa_forced_rack_type p).
Proof. exact rc_aspirate_end_to_end. Qed.
Print Assumptions C09_aspirate_end_to_end.

Theorem C09_dispense_end_to_end : forall w a w', dispense_well w a = (w', None) ->
  exists f p v,
    w_recs w' = (w_recs w ++ [RD f])%list /\ parse_record (render (RD f)) = Some (PD p) /\
    x_rack_label a = PStr (pa_rack_label p) /\ x_rack_id a = PStr (pa_rack_id p) /\
    x_rack_type a = PStr (pa_rack_type p) /\ x_position a = PInt (Z.of_N (pa_position p)) /\
    x_tube_id a = PStr (pa_tube_id p) /\
    x_volume a = PV (XQ v) /\ Z.of_N (pa_volume_c p) = round2c v /\
    x_liquid_class a = PStr (pa_liquid_class p) /\ tip_mask (x_tip a) = Ok (pa_tip p) /\
    x_forced a = PStr (pa_forced_rack_type p).
Proof. exact rc_dispense_end_to_end. Qed.
Print Assumptions C09_dispense_end_to_end.

(* ------------------------------------------------------------------------------------------ *)
(** ** C09_simple_emitters *)

(** [emit] appends the records and changes nothing else *)
Theorem C09_emit : forall w rs,
  w_recs (emit w rs) = (w_recs w ++ rs)%list /\ w_max (emit w rs) = w_max w /\
  w_autosplit (emit w rs) = w_autosplit w /\ w_diti (emit w rs) = w_diti w /\ w_dev (emit w rs) = w_dev w.
Proof. exact rc_emit_recs. Qed.
Print Assumptions C09_emit.

(** wash: "W;" in DiTi mode whatever the scheme; otherwise "Wn;" for n in 1..4, anything else rejected *)
Theorem C09_wash : forall w s,
  (w_diti w = true -> wash w s = (emit w [RW None], None)) /\
  (w_diti w = false -> forall n, (1 <= n <= 4)%nat -> s = SInt (Z.of_nat n) ->
     wash w s = (emit w [RW (Some n)], None)) /\
  (w_diti w = false -> (forall z, s = SInt z -> (z < 1 \/ 4 < z)%Z) -> wash w s = (w, Some EReject)).
Proof. exact rc_wash. Qed.
Print Assumptions C09_wash.

Theorem C09_decontaminate : forall w,
  (w_diti w = true -> decontaminate w = (w, Some EInvalidOp)) /\
  (w_diti w = false -> decontaminate w = (emit w [RWD], None)).
Proof. exact rc_decontaminate. Qed.
Print Assumptions C09_decontaminate.

Theorem C09_flush_commit : forall w, flush w = (emit w [RF], None) /\ commit w = (emit w [RB], None).
Proof. exact rc_flush_commit. Qed.
Print Assumptions C09_flush_commit.

(** comment: nothing for None / ""; a separator is rejected; otherwise one C record per non-blank stripped
    line, none of which contains a separator, a line feed, or any other character (e.g. CR) that the given
    text does not contain, and each of which parses back *)
Theorem C09_comment : forall w,
  comment w None = (w, None) /\ comment w (Some "") = (w, None) /\
  (forall s, contains_char ";"%char s = true -> comment w (Some s) = (w, Some EReject)) /\
  (forall s, s <> "" -> nosep s ->
     comment w (Some s) =
       (emit w (map RC (filter (fun l => negb (String.eqb l ""))
                               (map strip_sp (split_on (ascii_of_nat 10) s)))), None) /\
     forall t, In t (filter (fun l => negb (String.eqb l "")) (map strip_sp (split_on (ascii_of_nat 10) s))) ->
       t <> "" /\ nosep t /\ contains_char (ascii_of_nat 10) t = false /\
       (forall d, contains_char d s = false -> contains_char d t = false) /\
       parse_record (render (RC t)) = Some (PC t)).
Proof. exact rc_comment. Qed.
Print Assumptions C09_comment.

(** set_diti: a negative index is a ValueError (checked first); otherwise accepted only at the start of the
    worklist or directly after a break record *)
Theorem C09_set_diti : forall w i,
  ((i < 0)%Z -> set_diti w i = (w, Some EReject)) /\
  ((0 <= i)%Z -> w_recs w = [] -> set_diti w i = (emit w [RS i], None)) /\
  (forall l r, (0 <= i)%Z -> w_recs w = (l ++ [r])%list -> is_break_like r = true ->
     set_diti w i = (emit w [RS i], None)) /\
  (forall l r, (0 <= i)%Z -> w_recs w = (l ++ [r])%list -> is_break_like r = false ->
     set_diti w i = (w, Some EInvalidOp)).
Proof. exact rc_set_diti. Qed.
Print Assumptions C09_set_diti.

(** every outcome: a raising call appends nothing; an accepted call had a non-negative index, was made at the
    start or after a break and appends exactly the S record *)
Theorem C09_set_diti_cases : forall w i w' e, set_diti w i = (w', e) ->
  match e with
  | Some _ => w' = w
  | None => (0 <= i)%Z /\ w' = emit w [RS i] /\
            (w_recs w = [] \/ exists l r, w_recs w = (l ++ [r])%list /\ is_break_like r = true)
  end.
Proof. exact rc_set_diti_cases. Qed.
Print Assumptions C09_set_diti_cases.

(** method call -> appended record -> text -> parser -> the index given; no hypothesis on the index *)
Theorem C09_set_diti_end_to_end : forall w i w', set_diti w i = (w', None) ->
  exists n, w' = emit w [RS i] /\ w_recs w' = (w_recs w ++ [RS i])%list /\
            parse_record (render (RS i)) = Some (PS n) /\ Z.of_N n = i /\
            split_on ";"%char (render (RS i)) = ["S"; decN n].
Proof. exact rc_set_diti_end_to_end. Qed.
Print Assumptions C09_set_diti_end_to_end.

Theorem C09_break_like : forall r,
  is_break_like r = true <-> r = RB \/ exists s, r = RCmd (String "B" s).
Proof. exact rc_is_break_like. Qed.
Print Assumptions C09_break_like.

(* ------------------------------------------------------------------------------------------ *)
(** ** C09_roundtrip_R: reagent-distribution records *)

Definition r_nosep (f : rfields) : Prop :=
  nosep (r_src_label f) /\ nosep (r_src_id f) /\ nosep (r_src_type f) /\
  nosep (r_dst_label f) /\ nosep (r_dst_id f) /\ nosep (r_dst_type f) /\ nosep (r_liquid_class f).

Definition r_nonneg (f : rfields) : Prop :=
  (0 <= r_src_start f)%Z /\ (0 <= r_src_end f)%Z /\ (0 <= r_dst_start f)%Z /\ (0 <= r_dst_end f)%Z /\
  (0 <= r_diti_reuse f)%Z /\ (0 <= r_multi_disp f)%Z /\ Forall (fun x => (0 <= x)%Z) (r_exclude f).

(** record level, for an arbitrary [RR f]: [r_nosep f] and [r_nonneg f] are needed (a negative integer is not in
    the grammar) and hold of every R record [reagent_distribution] appends (C09_reagent_ok; the method call
    itself: C09_reagent_end_to_end).
    The VALUE of the volume field is in C09_roundtrip_R_float / C09_roundtrip_R_int below. *)
Theorem C09_roundtrip_R : forall f : rfields, r_nosep f -> r_nonneg f ->
  exists p,
    parse_record (render (RR f)) = Some (PR p) /\
    pr_src_label p = r_src_label f /\ pr_src_id p = r_src_id f /\ pr_src_type p = r_src_type f /\
    Z.of_N (pr_src_start p) = r_src_start f /\ Z.of_N (pr_src_end p) = r_src_end f /\
    pr_dst_label p = r_dst_label f /\ pr_dst_id p = r_dst_id f /\ pr_dst_type p = r_dst_type f /\
    Z.of_N (pr_dst_start p) = r_dst_start f /\ Z.of_N (pr_dst_end p) = r_dst_end f /\
    pr_volume p = render_pynum (r_volume f) /\
    (forall z, r_volume f = PyI z -> (0 <= z)%Z -> parse_decimal (pr_volume p) = Some (Z.to_N z, "")) /\
    (forall q, r_volume f = PyF q ->
       exists i fp, parse_decimal (pr_volume p) = Some (i, fp) /\ all_digits fp = true /\ fp <> "") /\
    pr_liquid_class p = r_liquid_class f /\
    Z.of_N (pr_diti_reuse p) = r_diti_reuse f /\ Z.of_N (pr_multi_disp p) = r_multi_disp f /\
    pr_direction p = r_direction f /\
    map Z.of_N (pr_exclude p) = r_exclude f /\
    n_fields (render (RR f)) = (16 + List.length (r_exclude f))%nat.
Proof. exact rc_roundtrip_R. Qed.
Print Assumptions C09_roundtrip_R.

(** one line (record level, under [r_nonneg]; for the method call: C09_reagent_oneline) *)
Theorem C09_oneline_R : forall (f : rfields) (c : ascii), r_nonneg f ->
  is_digit c = false -> c <> "."%char -> c <> "-"%char -> c <> ";"%char -> c <> "R"%char ->
  contains_char c (r_src_label f) = false -> contains_char c (r_src_id f) = false ->
  contains_char c (r_src_type f) = false -> contains_char c (r_dst_label f) = false ->
  contains_char c (r_dst_id f) = false -> contains_char c (r_dst_type f) = false ->
  contains_char c (r_liquid_class f) = false ->
  contains_char c (render (RR f)) = false.
Proof. exact rc_oneline_R. Qed.
Print Assumptions C09_oneline_R.

(* ------------------------------------------------------------------------------------------ *)
(** ** C09_roundtrip_R_float: the value of the volume field (review item M3) *)

(** !! FLOAT PRINTER CAVEAT (REVIEW2 N5, details in the header of this file) !!
    The next theorem, C09_roundtrip_R_float and C09_reagent_float_end_to_end are about the text the MODEL
    writes: [pyrepr_float q] is the exact terminating expansion of q.  Python's [repr] / numpy's
    format_float_positional write the shortest round-trip notation.  The two coincide when the expansion
    has at most 15 significant digits (harness domain k / 2^e, e <= 10: C09_short_expansion_example below);
    for other floats (0.1: C09_long_expansion_example) the theorems do not speak about the library's text. *)

(** on the harness grid the model's text is Python's repr: 12.5, 2^-10, 1024 - 2^-10 ... *)
Example C09_short_expansion_example :
  pyrepr_float (25 # 2) = "12.5" /\
  pyrepr_float (1 # 1024) = "0.0009765625" /\
  pyrepr_float (1048575 # 1024) = "1023.9990234375".
Proof. vm_compute. repeat split. Qed.

(** ... and the limit: the float nearest to 0.1 is 3602879701896397 / 2^55; Python writes "0.1", the model
    the 55 digits of the exact value (both read back to that float; only the model's text has its VALUE) *)
Example C09_long_expansion_example :
  (36028797018963968 = 2 ^ 55)%positive /\
  pyrepr_float (3602879701896397 # 36028797018963968) =
    "0.1000000000000000055511151231257827021181583404541015625" /\
  pyrepr_float (3602879701896397 # 36028797018963968) <> "0.1".
Proof. vm_compute. repeat split. discriminate. Qed.

(** the decimal the model writes for a float volume ([pyrepr_float]: the exact terminating expansion of a
    non-negative dyadic rational), read back with the independent [parse_decimal] and valued digit by digit
    with [dec_val], is the number itself.  Every binary64 float is dyadic; Python's [repr] is this exact
    expansion on the domain of the correspondence check (grids k / 2^e, e <= 10, DESIGN 3.3 / 5), while for a
    float such as 0.1 = 3602879701896397 / 2^55 Python writes the shortest round-trip decimal "0.1" and the
    model the 55-digit expansion - both are read back to within the float's precision, only the model's
    exactly. *)
Theorem C09_decimal_value : forall (q : Q) (k : nat),
  (0 <= q)%Q -> Npos (Qden (Qred q)) = (2 ^ N.of_nat k)%N ->
  exists i fp, parse_decimal (pyrepr_float q) = Some (i, fp) /\ all_digits fp = true /\ fp <> "" /\
               (dec_val i fp == q)%Q.
Proof. exact tx_pyrepr_float_value. Qed.
Print Assumptions C09_decimal_value.

(** the decimal [repr_dec n k] is n / 10^k *)
Theorem C09_repr_dec_value : forall (n : N) (k : nat), exists i fp,
  parse_decimal (repr_dec n k) = Some (i, fp) /\
  (dec_val i fp == inject_Z (Z.of_N n) / inject_Z (10 ^ Z.of_nat k))%Q.
Proof. exact tx_repr_dec_value. Qed.
Print Assumptions C09_repr_dec_value.

(** the parsed volume field of an R record with a dyadic float volume has the value of the volume
    (model's text; FLOAT PRINTER CAVEAT above) ... *)
Theorem C09_roundtrip_R_float : forall (f : rfields) (q : Q) (k : nat), r_nosep f -> r_nonneg f ->
  r_volume f = PyF q -> (0 <= q)%Q -> Npos (Qden (Qred q)) = (2 ^ N.of_nat k)%N ->
  exists p i fp, parse_record (render (RR f)) = Some (PR p) /\
                 parse_decimal (pr_volume p) = Some (i, fp) /\ (dec_val i fp == q)%Q.
Proof. exact tx_roundtrip_R_float. Qed.
Print Assumptions C09_roundtrip_R_float.

(** ... and so has an int volume *)
Theorem C09_roundtrip_R_int : forall (f : rfields) (z : Z), r_nosep f -> r_nonneg f ->
  r_volume f = PyI z -> (0 <= z)%Z ->
  exists p i, parse_record (render (RR f)) = Some (PR p) /\
              parse_decimal (pr_volume p) = Some (i, "") /\ (dec_val i "" == inject_Z z)%Q.
Proof. exact tx_roundtrip_R_int. Qed.
Print Assumptions C09_roundtrip_R_int.

(* ------------------------------------------------------------------------------------------ *)
(** ** C09_reagent: reagent_distribution *)

(** [sorted(...)] *)
Theorem C09_sort : forall l : list Z, StronglySorted Z.le (sort_Z l) /\ Permutation (sort_Z l) l.
Proof. exact rc_sort_Z. Qed.
Print Assumptions C09_sort.

(** the exclusion list given (None = empty) *)
Definition excl_arg (a : rdargs) : list Z := match rd_exclude a with Some l => l | None => [] end.

(** an accepted call appends exactly one R record with the arguments; the multi-dispense count is the one
    given if multi_disp * volume fits into max_volume, otherwise floor(max_volume / volume): the largest
    count that fits *)
Theorem C09_reagent_ok : forall w a w', reagent_distribution w a = (w', None) ->
  exists f, w' = emit w [RR f] /\ w_recs w' = (w_recs w ++ [RR f])%list /\
    rd_src_label a = PStr (r_src_label f) /\ rd_src_id a = PStr (r_src_id f) /\
    rd_src_type a = PStr (r_src_type f) /\ rd_dst_label a = PStr (r_dst_label f) /\
    rd_dst_id a = PStr (r_dst_id f) /\ rd_dst_type a = PStr (r_dst_type f) /\
    rd_liquid_class a = PStr (r_liquid_class f) /\
    rd_src_start a = PInt (r_src_start f) /\ rd_src_end a = PInt (r_src_end f) /\
    rd_dst_start a = PInt (r_dst_start f) /\ rd_dst_end a = PInt (r_dst_end f) /\
    match rd_volume a with
    | RVInt z => r_volume f = PyI z
    | RVFloat x => exists q, x = XQ q /\ r_volume f = PyF q
    | RVBad => False
    end /\
    r_diti_reuse f = rd_diti_reuse a /\
    rd_direction a = (if r_direction f then "right_to_left" else "left_to_right") /\
    r_exclude f = sort_Z (excl_arg a) /\
    ((inject_Z (rd_multi_disp a) * pynum_q (r_volume f) <= w_max w)%Q -> r_multi_disp f = rd_multi_disp a) /\
    ((w_max w < inject_Z (rd_multi_disp a) * pynum_q (r_volume f))%Q ->
       r_multi_disp f = Qfloor (w_max w / pynum_q (r_volume f)) /\ (0 < pynum_q (r_volume f))%Q /\
       (inject_Z (r_multi_disp f) * pynum_q (r_volume f) <= w_max w)%Q /\
       (w_max w < inject_Z (r_multi_disp f + 1) * pynum_q (r_volume f))%Q /\
       (1 <= r_multi_disp f < rd_multi_disp a)%Z) /\
    r_nosep f /\
    (short (r_src_label f) /\ short (r_src_id f) /\ short (r_src_type f) /\ short (r_dst_label f) /\
     short (r_dst_id f) /\ short (r_dst_type f)) /\
    (0 <= r_src_start f)%Z /\ (0 <= r_src_end f)%Z /\ (0 <= r_dst_start f)%Z /\ (0 <= r_dst_end f)%Z /\
    (0 <= pynum_q (r_volume f))%Q /\ (pynum_q (r_volume f) <= 7158278)%Q /\
    (pynum_q (r_volume f) <= w_max w)%Q /\
    Forall (fun x => (r_dst_start f <= x <= r_dst_end f)%Z) (r_exclude f) /\
    Forall (fun x => (0 <= x)%Z) (r_exclude f) /\
    (0 <= r_diti_reuse f)%Z /\ (0 <= r_multi_disp f)%Z.
Proof. exact rc_reagent_ok. Qed.
Print Assumptions C09_reagent_ok.

(** a raising call appends nothing *)
Theorem C09_reagent_err : forall w a w' e, reagent_distribution w a = (w', Some e) -> w' = w.
Proof. exact rc_reagent_err. Qed.
Print Assumptions C09_reagent_err.

(** the hypotheses of the record-level theorems hold of every record the method appends, which therefore
    parses *)
Theorem C09_reagent_representable : forall w a w', reagent_distribution w a = (w', None) ->
  exists f, w_recs w' = (w_recs w ++ [RR f])%list /\ r_nosep f /\ r_nonneg f /\
            exists p, parse_record (render (RR f)) = Some (PR p).
Proof. exact rc_reagent_representable. Qed.
Print Assumptions C09_reagent_representable.

(** method call -> record -> text -> parser -> the arguments; no hypothesis besides acceptance (diti_reuse and
    multi_disp are validated since /repo commit 26768d9, F21) *)
Theorem C09_reagent_end_to_end : forall w a w', reagent_distribution w a = (w', None) ->
  exists f p,
    w_recs w' = (w_recs w ++ [RR f])%list /\ parse_record (render (RR f)) = Some (PR p) /\
    rd_src_label a = PStr (pr_src_label p) /\ rd_src_id a = PStr (pr_src_id p) /\
    rd_src_type a = PStr (pr_src_type p) /\
    rd_src_start a = PInt (Z.of_N (pr_src_start p)) /\ rd_src_end a = PInt (Z.of_N (pr_src_end p)) /\
    rd_dst_label a = PStr (pr_dst_label p) /\ rd_dst_id a = PStr (pr_dst_id p) /\
    rd_dst_type a = PStr (pr_dst_type p) /\
    rd_dst_start a = PInt (Z.of_N (pr_dst_start p)) /\ rd_dst_end a = PInt (Z.of_N (pr_dst_end p)) /\
    pr_volume p = render_pynum (r_volume f) /\
    rd_liquid_class a = PStr (pr_liquid_class p) /\
    Z.of_N (pr_diti_reuse p) = rd_diti_reuse a /\
    Z.of_N (pr_multi_disp p) = r_multi_disp f /\
    rd_direction a = (if pr_direction p then "right_to_left" else "left_to_right") /\
    map Z.of_N (pr_exclude p) = sort_Z (excl_arg a).
Proof. exact rc_reagent_end_to_end. Qed.
Print Assumptions C09_reagent_end_to_end.

(** method call with a (dyadic) float volume -> record -> text -> parser -> the VALUE of the volume field is
    the volume given (model's text = library's text when the exact expansion of the float has at most 15
    significant digits: FLOAT PRINTER CAVEAT in the header and above C09_decimal_value) *)
Theorem C09_reagent_float_end_to_end : forall w a w' (q : Q) (k : nat),
  reagent_distribution w a = (w', None) ->
  rd_volume a = RVFloat (XQ q) -> Npos (Qden (Qred q)) = (2 ^ N.of_nat k)%N ->
  exists f p i fp,
    w_recs w' = (w_recs w ++ [RR f])%list /\ parse_record (render (RR f)) = Some (PR p) /\
    parse_decimal (pr_volume p) = Some (i, fp) /\ (dec_val i fp == q)%Q.
Proof. exact tx_reagent_float_end_to_end. Qed.
Print Assumptions C09_reagent_float_end_to_end.

(** one line: an accepted call writes a character that is not a digit, ".", "-", ";", "R" (in particular LF
    and CR) only if a text argument contains it *)
Theorem C09_reagent_oneline : forall w a w' (c : ascii), reagent_distribution w a = (w', None) ->
  is_digit c = false -> c <> "."%char -> c <> "-"%char -> c <> ";"%char -> c <> "R"%char ->
  (forall t s, In t [rd_src_label a; rd_src_id a; rd_src_type a; rd_dst_label a; rd_dst_id a; rd_dst_type a;
                     rd_liquid_class a] -> t = PStr s -> contains_char c s = false) ->
  exists f, w_recs w' = (w_recs w ++ [RR f])%list /\ contains_char c (render (RR f)) = false.
Proof. exact rc_reagent_oneline. Qed.
Print Assumptions C09_reagent_oneline.

(* ------------------------------------------------------------------------------------------ *)
(** ** C09_grammar (review item M2; was C09_grammar_refuted before /repo commit 26768d9, finding F21) *)

(** the record is read by the independent parser *)
Definition parsable (r : srec) : Prop := parse_record (render r) <> None.

(** going from [w] to [w'] appended the records [rs] (none if the call raised), all inside the grammar *)
Definition appends_parsable (w w' : wstate) : Prop :=
  exists rs, w_recs w' = (w_recs w ++ rs)%list /\ Forall parsable rs.

(** every record appended by set_diti / reagent_distribution / comment / wash / decontaminate / flush /
    commit / aspirate_well / dispense_well conforms to the grammar, whatever the arguments and whether or not
    the call raises *)
Theorem C09_grammar : forall w w' e,
  (forall i, set_diti w i = (w', e) -> appends_parsable w w') /\
  (forall a, reagent_distribution w a = (w', e) -> appends_parsable w w') /\
  (forall c, comment w c = (w', e) -> appends_parsable w w') /\
  (forall s, wash w s = (w', e) -> appends_parsable w w') /\
  (decontaminate w = (w', e) -> appends_parsable w w') /\
  (flush w = (w', e) -> appends_parsable w w') /\
  (commit w = (w', e) -> appends_parsable w w') /\
  (forall a, aspirate_well w a = (w', e) -> appends_parsable w w') /\
  (forall a, dispense_well w a = (w', e) -> appends_parsable w w').
Proof. exact rc_grammar. Qed.
Print Assumptions C09_grammar.

(** ... and so does every record appended by [distribute] (comment records, then one R record through
    [reagent_distribution]), for every outcome of the call *)
Theorem C09_distribute_grammar : forall s ks kd dwells a s' e,
  distribute s ks kd dwells a = (s', e) -> appends_parsable (st_wl s) (st_wl s').
Proof. exact distribute_parsable. Qed.
Print Assumptions C09_distribute_grammar.

(** PROGRAM LEVEL (REVIEW2 N3).  Every record appended by ANY sequence of worklist operations ([wl_op]:
    aspirate / dispense / transfer / distribute, comment, wash, decontaminate, flush, commit, set_diti), whatever
    the arguments and whether or not the individual calls raise, is read by the independent record parser *)
Theorem C09_grammar_run : forall ops s, forallb wl_op ops = true ->
  appends_parsable (st_wl s) (st_wl (fst (run s ops))).
Proof. exact run_parsable. Qed.
Print Assumptions C09_grammar_run.

(** ... so, starting from an empty worklist, every record of the worklist after the program *)
Theorem C09_grammar_run_empty : forall ops s, w_recs (st_wl s) = [] -> forallb wl_op ops = true ->
  Forall parsable (w_recs (st_wl (fst (run s ops)))).
Proof. exact run_parsable_empty. Qed.
Print Assumptions C09_grammar_run_empty.

(** ALL operations of [Program.op], including the record-level methods (aspirate_well, dispense_well,
    reagent_distribution), the labware-only calls (add / remove / condense_log append nothing) and the EVOware
    script commands of EvoWorklist (evo_aspirate / evo_dispense / evo_wash).  A script command "B;Aspirate(...);"
    is NOT a line of the record grammar (three ';'-fields, C09_example_cmd_not_record): the [RCmd] records are
    covered by the independent textual command parsers [parse_cmd] / [parse_wash] of Spec/CmdParse.v (property
    C13), under C13's hypothesis that the liquid class of the command contains neither a comma nor a double
    quote ([evo_command] itself only rejects ';'). *)
Definition in_grammar (r : srec) : Prop :=
  parsable r \/
  exists text, r = RCmd text /\ (parse_cmd text <> None \/ parse_wash text <> None).

Definition cmd_clean (o : op) : Prop :=
  match o with
  | OEvoAsp _ a _ | OEvoDisp _ a _ _ =>
      match c_liquid_class a with
      | PStr lc => contains_char ","%char lc = false /\ contains_char """"%char lc = false
      | PNotStr => True
      end
  | _ => True
  end.

Theorem C09_grammar_run_any : forall ops s, Forall cmd_clean ops ->
  exists rs, w_recs (st_wl (fst (run s ops))) = (w_recs (st_wl s) ++ rs)%list /\ Forall in_grammar rs.
Proof. exact run_grammar. Qed.
Print Assumptions C09_grammar_run_any.

Theorem C09_grammar_run_any_empty : forall ops s, w_recs (st_wl s) = [] -> Forall cmd_clean ops ->
  Forall in_grammar (w_recs (st_wl (fst (run s ops)))).
Proof. exact run_grammar_empty. Qed.
Print Assumptions C09_grammar_run_any_empty.

(** an accepted [distribute]: comment records, then the R record, which parses back to the arguments passed
    through (labware names, ids, types, volume, liquid class, DiTi reuse, direction; the multi-dispense count
    is the record's, at most the one given) *)
Theorem C09_distribute_end_to_end : forall s ks kd dwells a s', distribute s ks kd dwells a = (s', None) ->
  exists Ls Ld cs f p,
    nth_error (st_lw s) ks = Some Ls /\ nth_error (st_lw s) kd = Some Ld /\
    w_recs (st_wl s') = (w_recs (st_wl s) ++ cs ++ [RR f])%list /\ Forall parsable cs /\
    parse_record (render (RR f)) = Some (PR p) /\
    pr_src_label p = lw_name Ls /\ pr_dst_label p = lw_name Ld /\
    d_src_id a = PStr (pr_src_id p) /\ d_src_type a = PStr (pr_src_type p) /\
    d_dst_id a = PStr (pr_dst_id p) /\ d_dst_type a = PStr (pr_dst_type p) /\
    pr_volume p = render_pynum (r_volume f) /\
    match d_volume a with
    | RVInt z => r_volume f = PyI z
    | RVFloat x => exists q, x = XQ q /\ r_volume f = PyF q
    | RVBad => False
    end /\
    d_liquid_class a = PStr (pr_liquid_class p) /\
    Z.of_N (pr_diti_reuse p) = d_diti_reuse a /\
    Z.of_N (pr_multi_disp p) = r_multi_disp f /\ (r_multi_disp f <= d_multi_disp a)%Z /\
    d_direction a = (if pr_direction p then "right_to_left" else "left_to_right").
Proof. exact distribute_end_to_end. Qed.
Print Assumptions C09_distribute_end_to_end.

(** C09_reject_negative_counts: a negative DiTi index, DiTi reuse or multi-dispense count is a ValueError
    (whatever the other arguments: everything checked before raises ValueError too) and nothing is appended.
    Fixed in /repo by commit 26768d9 (finding F21); before, these calls were accepted. *)
Theorem C09_reject_negative_counts : forall w,
  (forall i, (i < 0)%Z -> set_diti w i = (w, Some EReject)) /\
  (forall a, (rd_diti_reuse a < 0 \/ rd_multi_disp a < 0)%Z ->
     reagent_distribution w a = (w, Some EReject)).
Proof. exact rc_reject_negative_counts. Qed.
Print Assumptions C09_reject_negative_counts.

(** rejections: direction, positions, excluded wells, texts, volume *)
Theorem C09_reagent_reject_direction : forall w a,
  rd_direction a <> "left_to_right" -> rd_direction a <> "right_to_left" ->
  reagent_distribution w a = (w, Some EReject).
Proof. exact rc_reagent_reject_direction. Qed.
Print Assumptions C09_reagent_reject_direction.

Theorem C09_reagent_reject_position : forall w a,
  (exists p, (p = rd_src_start a \/ p = rd_src_end a \/ p = rd_dst_start a \/ p = rd_dst_end a) /\
             match p with PInt z => (z < 0)%Z | PNotInt => True end) ->
  exists e, reagent_distribution w a = (w, Some e).
Proof. exact rc_reagent_reject_position. Qed.
Print Assumptions C09_reagent_reject_position.

Theorem C09_reagent_reject_exclude : forall w a x ds de,
  In x (excl_arg a) -> rd_dst_start a = PInt ds -> rd_dst_end a = PInt de -> (x < ds \/ de < x)%Z ->
  exists e, reagent_distribution w a = (w, Some e).
Proof. exact rc_reagent_reject_exclude. Qed.
Print Assumptions C09_reagent_reject_exclude.

(** a text argument that is not a str, contains a separator, or (labels, ids, types) exceeds 32 characters *)
Definition text_bad (limit : bool) (t : ptext) : Prop :=
  match t with
  | PNotStr => True
  | PStr s => contains_char ";"%char s = true \/ (limit = true /\ (32 < String.length s)%nat)
  end.

Theorem C09_reagent_reject_text : forall w a,
  text_bad true (rd_src_label a) \/ text_bad true (rd_src_id a) \/ text_bad true (rd_src_type a) \/
  text_bad true (rd_dst_label a) \/ text_bad true (rd_dst_id a) \/ text_bad true (rd_dst_type a) \/
  text_bad false (rd_liquid_class a) ->
  exists e, reagent_distribution w a = (w, Some e).
Proof. exact rc_reagent_reject_text. Qed.
Print Assumptions C09_reagent_reject_text.

Theorem C09_reagent_reject_volume : forall w a,
  match rvol_pvol (rd_volume a) with PV (XQ q) => (q < 0)%Q \/ (7158278 < q)%Q | _ => True end \/
  (exists q, rvol_pvol (rd_volume a) = PV (XQ q) /\ (w_max w < q)%Q) ->
  exists e, reagent_distribution w a = (w, Some e).
Proof. exact rc_reagent_reject_volume. Qed.
Print Assumptions C09_reagent_reject_volume.

(* ------------------------------------------------------------------------------------------ *)
(** ** non-vacuity *)

Definition ex_args : adargs :=
  {| x_rack_label := PStr "Plate 1"; x_position := PInt 13; x_volume := PV (XQ (12345 # 1000));
     x_liquid_class := PStr "Water free"; x_tip := TipMany [TInt 1; TTip 3];
     x_rack_id := PStr "ID7"; x_tube_id := PStr "T5"; x_rack_type := PStr "96 Well";
     x_forced := PStr "Forced" |}.

Definition ex_fields : adfields :=
  {| ad_rack_label := "Plate 1"; ad_rack_id := "ID7"; ad_rack_type := "96 Well"; ad_position := 13;
     ad_tube_id := "T5"; ad_volume := 12345 # 1000; ad_liquid_class := "Water free"; ad_tip := Some 5%N;
     ad_forced_rack_type := "Forced" |}.

Definition ex_w : wstate :=
  {| w_recs := [RB]; w_max := 950; w_autosplit := true; w_diti := false; w_dev := BaseDev |}.

(** an A record with all fields filled: 12.345 is written as 12.34 (round half to even) and read back *)
Example C09_example_A :
  prepare_ad ex_args (Some 950%Q) = Ok ex_fields /\
  render (RA ex_fields) = "A;Plate 1;ID7;96 Well;13;T5;12.34;Water free;;5;Forced" /\
  parse_record (render (RA ex_fields)) =
    Some (PA {| pa_rack_label := "Plate 1"; pa_rack_id := "ID7"; pa_rack_type := "96 Well";
                pa_position := 13; pa_tube_id := "T5"; pa_volume_c := 1234; pa_liquid_class := "Water free";
                pa_tip := Some 5%N; pa_forced_rack_type := "Forced" |}) /\
  w_recs (fst (aspirate_well ex_w ex_args)) = [RB; RA ex_fields] /\
  n_fields (render (RD ex_fields)) = 11%nat.
Proof. vm_compute. repeat split. Qed.

Example C09_example_hyps :
  ad_nosep ex_fields /\ (0 <= ad_position ex_fields)%Z /\ (0 <= ad_volume ex_fields)%Q /\
  ad_valid ex_fields (Some 950%Q) /\ ad_args ex_args ex_fields.
Proof.
  repeat split; first [reflexivity | exact I | vm_compute; discriminate | vm_compute; lia].
Qed.

Definition ex_rd : rdargs :=
  {| rd_src_label := PStr "Trough"; rd_src_start := PInt 1; rd_src_end := PInt 8;
     rd_dst_label := PStr "Plate"; rd_dst_start := PInt 1; rd_dst_end := PInt 96;
     rd_volume := RVInt 50; rd_diti_reuse := 1; rd_multi_disp := 30; rd_exclude := Some [17; 5; 9]%Z;
     rd_liquid_class := PStr "Water"; rd_direction := "right_to_left";
     rd_src_id := PStr ""; rd_src_type := PStr "Trough 100ml"; rd_dst_id := PStr "P1";
     rd_dst_type := PStr "" |}.

(** an R record with exclusions: 30 x 50 does not fit into 950, the count is reduced to 19; the exclusion
    list is sorted *)
Example C09_example_R :
  let w' := fst (reagent_distribution ex_w ex_rd) in
  snd (reagent_distribution ex_w ex_rd) = None /\
  map render (w_recs w') = ["B;"; "R;Trough;;Trough 100ml;1;8;Plate;P1;;1;96;50;Water;1;19;1;5;9;17"] /\
  map parse_record (map render (w_recs w')) =
    [Some PB;
     Some (PR {| pr_src_label := "Trough"; pr_src_id := ""; pr_src_type := "Trough 100ml";
                 pr_src_start := 1; pr_src_end := 8;
                 pr_dst_label := "Plate"; pr_dst_id := "P1"; pr_dst_type := "";
                 pr_dst_start := 1; pr_dst_end := 96;
                 pr_volume := "50"; pr_liquid_class := "Water"; pr_diti_reuse := 1; pr_multi_disp := 19;
                 pr_direction := true; pr_exclude := [5; 9; 17]%N |})].
Proof. vm_compute. repeat split. Qed.

(** a float volume is written as its exact expansion (= Python's repr here; FLOAT PRINTER CAVEAT in the header) *)
Example C09_example_R_float :
  render_pynum (PyF (25 # 2)) = "12.5" /\ parse_decimal "12.5" = Some (12%N, "5") /\
  parse_decimal (render_pynum (PyI 50)) = Some (50%N, "").
Proof. vm_compute. repeat split. Qed.

(** the hypotheses of C09_decimal_value / C09_roundtrip_R_float hold for 12.5 = 25/2 and for 3.125 = 25/8;
    the digits read back have the value of the number.  1/3 is not dyadic (no float has this value); the
    model's printer is only meant for dyadic rationals and C09_decimal_value does not apply to it. *)
Example C09_example_dyadic :
  Npos (Qden (Qred (25 # 2))) = (2 ^ N.of_nat 1)%N /\ Npos (Qden (Qred (50 # 16))) = (2 ^ N.of_nat 3)%N /\
  Npos (Qden (Qred 7)) = (2 ^ N.of_nat 0)%N /\
  pyrepr_float (50 # 16) = "3.125" /\ parse_decimal "3.125" = Some (3%N, "125") /\
  Qred (dec_val 3 "125") = (25 # 8)%Q /\ Qred (dec_val 12 "5") = (25 # 2)%Q /\
  pyrepr_float 7 = "7.0" /\ Qred (dec_val 7 "0") = 7%Q /\
  Qden (Qred (1 # 3)) = 3%positive.
Proof. vm_compute. repeat split. Qed.

(** rejected calls leave the worklist unchanged *)
Example C09_example_reject :
  aspirate_well ex_w
    {| x_rack_label := PStr "Pla;te"; x_position := PInt 13; x_volume := PV (XQ 10);
       x_liquid_class := PStr ""; x_tip := TipOne TAny; x_rack_id := PStr ""; x_tube_id := PStr "";
       x_rack_type := PStr ""; x_forced := PStr "" |} = (ex_w, Some EReject) /\
  dispense_well ex_w
    {| x_rack_label := PStr "Plate"; x_position := PInt 13; x_volume := PV (XQ 951);
       x_liquid_class := PStr ""; x_tip := TipOne TAny; x_rack_id := PStr ""; x_tube_id := PStr "";
       x_rack_type := PStr ""; x_forced := PStr "" |} = (ex_w, Some EInvalidOp) /\
  dispense_well ex_w
    {| x_rack_label := PStr "Plate"; x_position := PInt 13; x_volume := PV XNaN;
       x_liquid_class := PStr ""; x_tip := TipOne TAny; x_rack_id := PStr ""; x_tube_id := PStr "";
       x_rack_type := PStr ""; x_forced := PStr "" |} = (ex_w, Some EReject) /\
  reagent_distribution ex_w
    {| rd_src_label := PStr "Trough"; rd_src_start := PInt 1; rd_src_end := PInt 8;
       rd_dst_label := PStr "Plate"; rd_dst_start := PInt 1; rd_dst_end := PInt 96;
       rd_volume := RVInt 50; rd_diti_reuse := 1; rd_multi_disp := 30; rd_exclude := Some [97]%Z;
       rd_liquid_class := PStr "Water"; rd_direction := "right_to_left";
       rd_src_id := PStr ""; rd_src_type := PStr ""; rd_dst_id := PStr ""; rd_dst_type := PStr "" |}
    = (ex_w, Some EReject) /\
  set_diti ex_w (-1) = (ex_w, Some EReject) /\
  reagent_distribution ex_w
    {| rd_src_label := PStr "T"; rd_src_start := PInt 1; rd_src_end := PInt 8;
       rd_dst_label := PStr "P"; rd_dst_start := PInt 1; rd_dst_end := PInt 96;
       rd_volume := RVInt 100; rd_diti_reuse := (-1)%Z; rd_multi_disp := (-3)%Z; rd_exclude := None;
       rd_liquid_class := PStr ""; rd_direction := "left_to_right";
       rd_src_id := PStr ""; rd_src_type := PStr ""; rd_dst_id := PStr ""; rd_dst_type := PStr "" |}
    = (ex_w, Some EReject) /\
  parse_record "S;-1" = None /\ parse_record "R;T;;;1;8;P;;;1;96;100;;-1;-3;0" = None /\
  set_diti ex_w 2 = (emit ex_w [RS 2%Z], None) /\
  set_diti (emit ex_w [RS 2%Z]) 3 = (emit ex_w [RS 2%Z], Some EInvalidOp) /\
  decontaminate {| w_recs := []; w_max := 950; w_autosplit := true; w_diti := true; w_dev := BaseDev |}
    = ({| w_recs := []; w_max := 950; w_autosplit := true; w_diti := true; w_dev := BaseDev |}, Some EInvalidOp).
Proof. vm_compute. repeat split. Qed.

(** [distribute] (state [ex_state Evo] of Proofs/RefinementProofs.v: plate "big" and 4-row trough "T4"): an
    accepted call with a label and a float volume writes a comment and the R record, both parse; with a
    negative multi-dispense count the call raises ValueError in [reagent_distribution], i.e. after the comment
    has been written (the comment is inside the grammar, no R record is appended) *)
Definition ex_dist (multi : Z) : distargs :=
  {| d_source_column := 0; d_volume := RVFloat (XQ (25 # 2)); d_diti_reuse := 2; d_multi_disp := multi;
     d_liquid_class := PStr "W"; d_label := Some "fill"; d_direction := "left_to_right";
     d_src_id := PStr ""; d_src_type := PStr ""; d_dst_id := PStr ""; d_dst_type := PStr "" |}.

Example C09_example_distribute :
  let r := distribute (ex_state Evo) 1 0 (A1 ["A02"; "B02"]) (ex_dist 3) in
  let r' := distribute (ex_state Evo) 1 0 (A1 ["A02"; "B02"]) (ex_dist (-1)) in
  snd r = None /\
  map render (w_recs (st_wl (fst r))) = ["C;fill"; "R;T4;;;1;4;big;;;3;4;12.5;W;2;3;0"] /\
  map parse_record (map render (w_recs (st_wl (fst r)))) =
    [Some (PC "fill");
     Some (PR {| pr_src_label := "T4"; pr_src_id := ""; pr_src_type := ""; pr_src_start := 1; pr_src_end := 4;
                 pr_dst_label := "big"; pr_dst_id := ""; pr_dst_type := ""; pr_dst_start := 3; pr_dst_end := 4;
                 pr_volume := "12.5"; pr_liquid_class := "W"; pr_diti_reuse := 2; pr_multi_disp := 3;
                 pr_direction := false; pr_exclude := [] |})] /\
  snd r' = Some EReject /\ map render (w_recs (st_wl (fst r'))) = ["C;fill"].
Proof. vm_compute. repeat split. Qed.

(** comment lines, wash, and the simple records parse back *)
Example C09_example_simple :
  map render (w_recs (fst (comment ex_w (Some ("  first line " ++ String (ascii_of_nat 10) ""
                                              ++ "   " ++ String (ascii_of_nat 10) "" ++ "second")))))
    = ["B;"; "C;first line"; "C;second"] /\
  map parse_record ["B;"; "C;first line"; "C;second"; "W2;"; "WD;"; "F;"; "S;3"; "W;"]
    = [Some PB; Some (PC "first line"); Some (PC "second"); Some (PW (Some 2%N)); Some PWD; Some PF;
       Some (PS 3%N); Some (PW None)] /\
  map parse_record ["X;"; "W5;"; "A;a;b"; "S;-1"; "A;L;;;1;;10.0;;;;"; "A;L;;;1;;10.00;;x;;"; ""]
    = [None; None; None; None; None; None; None].
Proof. vm_compute. repeat split. Qed.

(** the validation does not look for line breaks: a rack label with a line feed is accepted and the record
    then spans two lines (the hypothesis on [c] in C09_fields_AD is needed) *)
Example C09_example_linebreak :
  let a := {| x_rack_label := PStr ("Pla" ++ String (ascii_of_nat 10) "te"); x_position := PInt 1;
              x_volume := PV (XQ 10); x_liquid_class := PStr ""; x_tip := TipOne TAny; x_rack_id := PStr "";
              x_tube_id := PStr ""; x_rack_type := PStr ""; x_forced := PStr "" |} in
  match prepare_ad a None with
  | Ok f => contains_char (ascii_of_nat 10) (render (RA f)) = true /\
            List.length (split_on (ascii_of_nat 10) (render (RA f))) = 2%nat
  | Err _ => False
  end.
Proof. vm_compute. repeat split. Qed.

(** program level: a comment, evo_aspirate with a label, evo_dispense, evo_wash, aspirate_well, a labware-only
    add, a rejected set_diti on the example state of C01 ([ex_state Evo]); six records; the script commands are
    read by [parse_cmd] / [parse_wash] and by them only, the other records by [parse_record] *)
Definition ex_cmd : cmdargs :=
  {| c_wells := A1 ["A01"; "B01"]; c_grid := PInt 10; c_site := PInt 1; c_volume := CVScalar (PV (XQ 10));
     c_liquid_class := PStr "Water"; c_tips := [TInt 1; TInt 2]; c_arm := 0 |}.
Definition ex_wash : washargs :=
  {| wa_tips := [TInt 1; TInt 2]; wa_waste_grid := PInt 1; wa_waste_site := PInt 2; wa_cleaner_grid := PInt 1;
     wa_cleaner_site := PInt 1; wa_arm := 0; wa_waste_vol := FI_float (XQ 3); wa_waste_delay := PInt 500;
     wa_cleaner_vol := FI_int 4; wa_cleaner_delay := PInt 500; wa_airgap := PInt 10; wa_airgap_speed := PInt 70;
     wa_retract_speed := PInt 30; wa_fastwash := PInt 1; wa_low_volume := PInt 0 |}.
Definition ex_prog_any : list op :=
  [OComment (Some "start"); OEvoAsp 0 ex_cmd (Some "asp"); OEvoDisp 0 ex_cmd None None; OEvoWash ex_wash;
   OAspWell ex_args; OAdd 0 (A1 ["A01"]) (A0 (XQ 5)) None None; OSetDiti (-1)].

Example C09_example_run_any_hyps : Forall cmd_clean ex_prog_any /\ forallb wl_op ex_prog_any = false.
Proof. split; [repeat constructor|reflexivity]. Qed.

Example C09_example_run_any :
  let r := run (ex_state Evo) ex_prog_any in
  snd r = [None; None; None; None; None; None; Some EReject] /\
  map render (w_recs (st_wl (fst r))) =
    ["C;start"; "C;asp";
     "B;Aspirate(3,""Water"",""10.0"",""10.0"",0,0,0,0,0,0,0,0,0,0,10,0,1,""02023"",0,0);";
     "B;Dispense(3,""Water"",""10.0"",""10.0"",0,0,0,0,0,0,0,0,0,0,10,0,1,""02023"",0,0);";
     "B;Wash(3,1,1,1,0,""3.0"",500,""4"",500,10,70,30,1,0,1000,0);";
     "A;Plate 1;ID7;96 Well;13;T5;12.34;Water free;;5;Forced"] /\
  map (fun r0 => match parse_record (render r0) with Some _ => true | None => false end)
      (w_recs (st_wl (fst r))) = [true; true; false; false; false; true] /\
  map (fun r0 => match parse_cmd (render r0), parse_wash (render r0) with
                 | Some _, _ => 1 | None, Some _ => 2 | None, None => 0 end%nat)
      (w_recs (st_wl (fst r))) = [0; 0; 1; 1; 2; 0]%nat.
Proof. vm_compute. repeat split. Qed.

Example C09_example_cmd_not_record :
  parse_record "B;Wash(3,1,1,1,0,""3.0"",500,""4"",500,10,70,30,1,0,1000,0);" = None /\
  parse_record "B;" = Some PB.
Proof. vm_compute. split; reflexivity. Qed.

(* ------------------------------------------------------------------------------------------ *)
(** ** C09_passthrough: the keyword arguments of aspirate / dispense / transfer / distribute (REVIEW.md M15)

    [aspirate] and [dispense] write one record per (well, volume) pair with a positive volume and hand their
    keyword arguments [kw] (liquid class, tip, rack id, tube id, rack type, forced rack type) to each of them;
    [transfer] does the same for both records of every step.  Everything below is about the TEXT of the records
    as read by the independent parser.  [distribute]: labware names, rack ids / types, volume, liquid class, DiTi
    reuse, multi-dispense count and direction in the parsed R record are C09_distribute_end_to_end above. *)

(** the parsed record [p] shows the keyword arguments (for Tip.Any the mask field is empty: C10_any) *)
Definition pass_kw (kw : kwargs) (p : pad) : Prop :=
  k_liquid_class kw = PStr (pa_liquid_class p) /\ k_rack_id kw = PStr (pa_rack_id p) /\
  k_tube_id kw = PStr (pa_tube_id p) /\ k_rack_type kw = PStr (pa_rack_type p) /\
  k_forced kw = PStr (pa_forced_rack_type p) /\ tip_mask (k_tip kw) = Ok (pa_tip p).

(** [r] is the record of the pair [wx] = (well id, volume): the volume is a positive number [v], [r] is an A
    ([asp]) or D record, and its text parses to rack label [name], the device position of the well on labware
    geometry [g], the volume [v] rounded to two decimals (in hundredths), and the keyword arguments *)
Definition pass_record (d : device) (name : string) (g : geom) (asp : bool) (kw : kwargs)
    (wx : string * xnum) (r : srec) : Prop :=
  exists v f p, snd wx = XQ v /\ (0 < v)%Q /\
    r = (if asp then RA f else RD f) /\
    parse_record (render r) = Some (if asp then PA p else PD p) /\
    pa_rack_label p = name /\
    device_position d g (fst wx) = Ok (N.to_nat (pa_position p)) /\
    Z.of_N (pa_volume_c p) = round2c v /\
    pass_kw kw p.

(** the comment lines of a label (C09_comment) *)
Definition pass_label_lines (label : option string) : list string :=
  match label with
  | None => []
  | Some s => if String.eqb s "" then [] else comment_lines s
  end.

(** the (well, volume) pairs with a positive volume, in call order (2-D arguments column-major, a single
    volume broadcast) *)
Definition pass_items (wells : arr string) (vols : arr xnum) : list (string * xnum) :=
  filter (fun wx => xpos (snd wx)) (zip (flattenF wells) (broadcast (flattenF vols) (length (flattenF wells)))).

(** an accepted [aspirate] appends the comment lines of the label and then exactly one A record per pair with a
    positive volume, in order, each with the keyword arguments *)
Theorem C09_aspirate_passthrough : forall s k wells vols label kw s' L,
  aspirate s k wells vols label kw = (s', None) -> nth_error (st_lw s) k = Some L ->
  exists new, st_wl s' = emit (st_wl s) (map RC (pass_label_lines label) ++ new) /\
    Forall2 (pass_record (w_dev (st_wl s)) (lw_name L) (lw_geom L) true kw) (pass_items wells vols) new.
Proof. exact pt_aspirate_ok. Qed.
Print Assumptions C09_aspirate_passthrough.

Theorem C09_dispense_passthrough : forall s k wells vols label comps kw s' L,
  dispense s k wells vols label comps kw = (s', None) -> nth_error (st_lw s) k = Some L ->
  exists new, st_wl s' = emit (st_wl s) (map RC (pass_label_lines label) ++ new) /\
    Forall2 (pass_record (w_dev (st_wl s)) (lw_name L) (lw_geom L) false kw) (pass_items wells vols) new.
Proof. exact pt_dispense_ok. Qed.
Print Assumptions C09_dispense_passthrough.

(** an A / D record whose text shows the keyword arguments (nothing is asked of other records) *)
Definition pass_rec_kw (kw : kwargs) (r : srec) : Prop :=
  match r with
  | RA _ => exists p, parse_record (render r) = Some (PA p) /\ pass_kw kw p
  | RD _ => exists p, parse_record (render r) = Some (PD p) /\ pass_kw kw p
  | _ => True
  end.

(** every A and every D record appended by a [transfer] - accepted or stopped half-way, split or not - carries
    the keyword arguments (hence all of them the same liquid class and the same mask: C10_passthrough_mask);
    which records these are: C07_transfer_records, C07_pairing *)
Theorem C09_transfer_passthrough : forall s ks swells kd dwells vols label ws pb kw s' e,
  transfer s ks swells kd dwells vols label ws pb kw = (s', e) ->
  exists new, st_wl s' = emit (st_wl s) new /\ Forall (pass_rec_kw kw) new.
Proof. exact pt_transfer_any. Qed.
Print Assumptions C09_transfer_passthrough.

(** the same for [aspirate] and [dispense] whatever the outcome *)
Theorem C09_aspirate_dispense_passthrough_any : forall s kw s' e,
  (forall k wells vols label, aspirate s k wells vols label kw = (s', e) ->
     exists new, st_wl s' = emit (st_wl s) new /\ Forall (pass_rec_kw kw) new) /\
  (forall k wells vols label comps, dispense s k wells vols label comps kw = (s', e) ->
     exists new, st_wl s' = emit (st_wl s) new /\ Forall (pass_rec_kw kw) new).
Proof. exact pt_aspirate_dispense_any. Qed.
Print Assumptions C09_aspirate_dispense_passthrough_any.

(** REJECTION.  [aspirate] first charges the labware ([remove]), then writes the comment, then the records.
    When the labware call is refused nothing is written (C02_aspirate_rejected).  When it was accepted
    ([remove L wells vols label = (L', None)]) and the call raises all the same, the labware stays charged in
    full and either the label was refused (a separator; nothing appended) or the record loop stopped at a pair
    [wx]: the comment lines and the records of the pairs BEFORE [wx] are in the worklist, nothing of [wx] or
    later.  [pass_offends]: the well of [wx] has no position on this device, or the record arguments were
    refused by the validation of C09_prepare_ok *)
Definition pass_offends (d : device) (name : string) (g : geom) (m : Q) (kw : kwargs)
    (wx : string * xnum) (e : err) : Prop :=
  device_position d g (fst wx) = Err e \/
  exists pos, device_position d g (fst wx) = Ok pos /\
              prepare_ad (ad_of_kw name pos (xq (snd wx)) kw) (Some m) = Err e.

Theorem C09_aspirate_stopped : forall s k wells vols label kw s' e0 L L',
  aspirate s k wells vols label kw = (s', Some e0) -> nth_error (st_lw s) k = Some L ->
  remove L wells vols label = (L', None) ->
  st_lw s' = upd (st_lw s) k L' /\
  ((snd (comment (st_wl s) label) = Some e0 /\ st_wl s' = st_wl s) \/
   (exists new pre wx post,
      st_wl s' = emit (st_wl s) (map RC (pass_label_lines label) ++ new) /\
      pass_items wells vols = (pre ++ wx :: post)%list /\
      Forall2 (pass_record (w_dev (st_wl s)) (lw_name L) (lw_geom L) true kw) pre new /\
      pass_offends (w_dev (st_wl s)) (lw_name L) (lw_geom L) (w_max (st_wl s)) kw wx e0)).
Proof. exact pt_aspirate_stopped. Qed.
Print Assumptions C09_aspirate_stopped.

Theorem C09_dispense_stopped : forall s k wells vols label comps kw s' e0 L L',
  dispense s k wells vols label comps kw = (s', Some e0) -> nth_error (st_lw s) k = Some L ->
  add L wells vols label comps = (L', None) ->
  st_lw s' = upd (st_lw s) k L' /\
  ((snd (comment (st_wl s) label) = Some e0 /\ st_wl s' = st_wl s) \/
   (exists new pre wx post,
      st_wl s' = emit (st_wl s) (map RC (pass_label_lines label) ++ new) /\
      pass_items wells vols = (pre ++ wx :: post)%list /\
      Forall2 (pass_record (w_dev (st_wl s)) (lw_name L) (lw_geom L) false kw) pre new /\
      pass_offends (w_dev (st_wl s)) (lw_name L) (lw_geom L) (w_max (st_wl s)) kw wx e0)).
Proof. exact pt_dispense_stopped. Qed.
Print Assumptions C09_dispense_stopped.

(** a keyword argument that cannot be represented: liquid class / tube id not a str or with a separator, rack
    id / rack type / forced rack type additionally longer than 32 characters, an invalid tip (C10_reject) *)
Definition pass_kw_bad (kw : kwargs) : Prop :=
  text_bad false (k_liquid_class kw) \/ text_bad true (k_rack_id kw) \/
  text_bad false (k_tube_id kw) \/ text_bad true (k_rack_type kw) \/
  text_bad true (k_forced kw) \/ exists e, tip_mask (k_tip kw) = Err e.

(** EReject, EInvalidOp or ECompat: the errors of the record-writing part (as in C02) *)
Definition pass_record_error (e : err) : Prop := e = EReject \/ e = EInvalidOp \/ e = ECompat.

(** such an argument is refused for every record ... *)
Theorem C09_kw_bad_refused : forall name pos v kw m, pass_kw_bad kw ->
  exists e, prepare_ad (ad_of_kw name pos v kw) m = Err e.
Proof. exact pt_kw_bad_prepare. Qed.
Print Assumptions C09_kw_bad_refused.

(** ... so (labware call and label accepted) what is left behind is exactly: the labware charged in full, the
    comment lines in the worklist, and NO A / D record; the call raises (with a record error) if and only if
    there is at least one positive volume - with none, nothing is validated and the call is accepted, in the
    model as in the library (the keyword arguments are only looked at by aspirate_well / dispense_well) *)
Theorem C09_aspirate_kw_rejected : forall s k wells vols label kw s' e L L',
  pass_kw_bad kw -> aspirate s k wells vols label kw = (s', e) -> nth_error (st_lw s) k = Some L ->
  remove L wells vols label = (L', None) -> snd (comment (st_wl s) label) = None ->
  s' = set_wl (set_lw s k L') (emit (st_wl s) (map RC (pass_label_lines label))) /\
  (e = None <-> pass_items wells vols = []) /\ (forall e0, e = Some e0 -> pass_record_error e0).
Proof. exact pt_aspirate_kw_bad. Qed.
Print Assumptions C09_aspirate_kw_rejected.

Theorem C09_dispense_kw_rejected : forall s k wells vols label comps kw s' e L L',
  pass_kw_bad kw -> dispense s k wells vols label comps kw = (s', e) -> nth_error (st_lw s) k = Some L ->
  add L wells vols label comps = (L', None) -> snd (comment (st_wl s) label) = None ->
  s' = set_wl (set_lw s k L') (emit (st_wl s) (map RC (pass_label_lines label))) /\
  (e = None <-> pass_items wells vols = []) /\ (forall e0, e = Some e0 -> pass_record_error e0).
Proof. exact pt_dispense_kw_bad. Qed.
Print Assumptions C09_dispense_kw_rejected.

(** non-vacuity ([ex_state Evo] of Proofs/RefinementProofs.v: trough "T4", 4 virtual rows x 2 columns, 500 per
    column).  Three wells with liquid class "Water", tips [1; Tip.T3], rack id "12345": a comment and three A
    records, each with mask 5 and the keyword arguments, parsed back ... *)
Definition ex_pass_kw (lc : string) : kwargs :=
  {| k_liquid_class := PStr lc; k_tip := TipMany [TInt 1; TTip 3]; k_rack_id := PStr "12345";
     k_tube_id := PStr ""; k_rack_type := PStr ""; k_forced := PStr "" |}.

Example C09_example_passthrough :
  let r := aspirate (ex_state Evo) 1 (A1 ["A01"; "C01"; "B02"]) (A1 [XQ 10; XQ (41 # 2); XQ 30]) (Some "take")
                    (ex_pass_kw "Water") in
  snd r = None /\
  map render (w_recs (st_wl (fst r))) =
    ["C;take"; "A;T4;12345;;1;;10.00;Water;;5;"; "A;T4;12345;;3;;20.50;Water;;5;"; "A;T4;12345;;6;;30.00;Water;;5;"] /\
  map parse_record (map render (w_recs (st_wl (fst r)))) =
    [Some (PC "take");
     Some (PA {| pa_rack_label := "T4"; pa_rack_id := "12345"; pa_rack_type := ""; pa_position := 1;
                 pa_tube_id := ""; pa_volume_c := 1000; pa_liquid_class := "Water"; pa_tip := Some 5%N;
                 pa_forced_rack_type := "" |});
     Some (PA {| pa_rack_label := "T4"; pa_rack_id := "12345"; pa_rack_type := ""; pa_position := 3;
                 pa_tube_id := ""; pa_volume_c := 2050; pa_liquid_class := "Water"; pa_tip := Some 5%N;
                 pa_forced_rack_type := "" |});
     Some (PA {| pa_rack_label := "T4"; pa_rack_id := "12345"; pa_rack_type := ""; pa_position := 6;
                 pa_tube_id := ""; pa_volume_c := 3000; pa_liquid_class := "Water"; pa_tip := Some 5%N;
                 pa_forced_rack_type := "" |})] /\
  tip_mask (k_tip (ex_pass_kw "Water")) = Ok (Some 5%N) /\
  pass_items (A1 ["A01"; "C01"; "B02"]) (A1 [XQ 10; XQ (41 # 2); XQ 30]) =
    [("A01", XQ 10); ("C01", XQ (41 # 2)); ("B02", XQ 30)] /\
  map (device_position Evo (lw_geom ex_t4)) ["A01"; "C01"; "B02"] = [Ok 1%nat; Ok 3%nat; Ok 6%nat] /\
  map lw_vols (st_lw (fst r)) = [[3000; 0; 100; 0]; [939 # 2; 470]]%Q.
Proof. vm_compute. repeat split; reflexivity. Qed.

(** ... and with a separator in the liquid class (a zero volume in between is skipped): the trough has lost
    10 + 30, the comment is written, no A record is, the call raises ValueError; with no positive volume the
    same call is accepted *)
Example C09_example_kw_rejected :
  let r := aspirate (ex_state Evo) 1 (A1 ["A01"; "C01"; "B02"]) (A1 [XQ 10; XQ 0; XQ 30]) (Some "take")
                    (ex_pass_kw "Wa;ter") in
  let r0 := aspirate (ex_state Evo) 1 (A1 ["A01"; "C01"]) (A0 (XQ 0)) (Some "take") (ex_pass_kw "Wa;ter") in
  pass_kw_bad (ex_pass_kw "Wa;ter") /\
  snd r = Some EReject /\ map render (w_recs (st_wl (fst r))) = ["C;take"] /\
  map lw_vols (st_lw (fst r)) = [[3000; 0; 100; 0]; [490; 470]]%Q /\
  snd r0 = None /\ map render (w_recs (st_wl (fst r0))) = ["C;take"].
Proof. split; [left; left; reflexivity|]. vm_compute. repeat split; reflexivity. Qed.
