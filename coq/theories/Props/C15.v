(** C15 — well transforms: shift/unshift, rotate_cw/rotate_ccw and randomize/derandomize are mutually
    inverse, shape-preserving, elementwise maps on well ids.
    Statements only; proofs live in Proofs/TransformProofs.v.
    Plates have at most 26 rows (one row letter per row); the bound is stated wherever it is used.
    For the shifter only [RB <= 26] is assumed: [RA <= 26] follows from [RA + dr <= RB]. *)
From Robo Require Import Prelude Str Wells Transform TransformProofs.
From Coq Require Import Permutation.

(** two arrays have the same constructor and the same lengths *)
Definition same_shape {A B} (a : arr A) (b : arr B) : Prop :=
  match a, b with
  | A0 _, A0 _ => True
  | A1 xs, A1 ys => length xs = length ys
  | A2 rs, A2 qs => map (@length A) rs = map (@length B) qs
  | _, _ => False
  end.

(** ** well ids and the plate index (used by all statements below) *)

Theorem C15_well_id_index : forall R C r c, R <= 26 -> r < R -> c < C ->
  make_well_index R C (well_id r c) = Some (r, c).
Proof. exact xf_index_well_id. Qed.
Print Assumptions C15_well_id_index.

Theorem C15_index_well_id : forall R C s r c, make_well_index R C s = Some (r, c) ->
  s = well_id r c /\ r < R /\ r < 26 /\ c < C.
Proof. exact xf_index_inv. Qed.
Print Assumptions C15_index_well_id.

Theorem C15_well_id_injective : forall r c r' c', r < 26 -> r' < 26 ->
  well_id r c = well_id r' c' -> r = r' /\ c = c'.
Proof. exact xf_well_id_injective. Qed.
Print Assumptions C15_well_id_injective.

(** ** shifting *)

(** a shifter that was accepted has the anchor's (row, column) as offset, plate A fits into plate B at
    that offset, and every well (r, c) of A is sent to the well (r + dr, c + dc), which is on plate B *)
Theorem C15_shift_offset : forall RA CA RB CB anchor s,
  RB <= 26 -> mk_shifter RA CA RB CB anchor = Ok s ->
  anchor = well_id (sh_dr s) (sh_dc s) /\
  RA + sh_dr s <= RB /\ CA + sh_dc s <= CB /\
  forall r c, r < RA -> c < CA ->
    shift1 s (well_id r c) = Ok (well_id (r + sh_dr s) (c + sh_dc s)) /\
    make_well_index RB CB (well_id (r + sh_dr s) (c + sh_dc s)) = Some (r + sh_dr s, c + sh_dc s).
Proof. exact xf_shift_offset. Qed.
Print Assumptions C15_shift_offset.

(** the anchor is a well of B but A would stick out: ValueError *)
Theorem C15_shift_refused : forall RA CA RB CB dr dc,
  RB <= 26 -> dr < RB -> dc < CB -> RB < RA + dr \/ CB < CA + dc ->
  mk_shifter RA CA RB CB (well_id dr dc) = Err EValue.
Proof. exact xf_shift_refused_value. Qed.
Print Assumptions C15_shift_refused.

(** the anchor is not a well of B: refused (some exception) *)
Theorem C15_shift_refused_anchor : forall RA CA RB CB anchor,
  (forall r c, r < RB -> c < CB -> anchor <> well_id r c) ->
  mk_shifter RA CA RB CB anchor = Err EReject.
Proof. exact xf_shift_refused_anchor. Qed.
Print Assumptions C15_shift_refused_anchor.

(** shift and unshift are mutually inverse partial maps; both are injective *)
Theorem C15_shift_inverse : forall RA CA RB CB anchor s,
  RB <= 26 -> mk_shifter RA CA RB CB anchor = Ok s ->
  (forall w w', shift1 s w = Ok w' -> unshift1 s w' = Ok w) /\
  (forall w w', unshift1 s w' = Ok w -> shift1 s w = Ok w') /\
  (forall w1 w2 w', shift1 s w1 = Ok w' -> shift1 s w2 = Ok w' -> w1 = w2) /\
  (forall w1' w2' w, unshift1 s w1' = Ok w -> unshift1 s w2' = Ok w -> w1' = w2').
Proof. exact xf_shift_inverse. Qed.
Print Assumptions C15_shift_inverse.

(** ** rotation *)

(** clockwise: (r, c) -> (c, R-1-r); counter-clockwise: (r, c) -> (C-1-c, r); both land on the C x R plate;
    the counter-clockwise rotator of the transposed plate undoes the clockwise one and vice versa *)
Theorem C15_rot : forall R C, R <= 26 -> C <= 26 ->
  (forall r c, r < R -> c < C ->
     rotate_cw1 R C (well_id r c) = Ok (well_id c (R - 1 - r)) /\
     make_well_index C R (well_id c (R - 1 - r)) = Some (c, R - 1 - r) /\
     rotate_ccw1 R C (well_id r c) = Ok (well_id (C - 1 - c) r) /\
     make_well_index C R (well_id (C - 1 - c) r) = Some (C - 1 - c, r)) /\
  (forall w w', rotate_cw1 R C w = Ok w' -> rotate_ccw1 C R w' = Ok w) /\
  (forall w w', rotate_ccw1 R C w = Ok w' -> rotate_cw1 C R w' = Ok w).
Proof. exact xf_rot_spec. Qed.
Print Assumptions C15_rot.

(** four quarter turns (alternating the R x C and the C x R rotator) are the identity *)
Theorem C15_rot_four : forall R C r c, R <= 26 -> C <= 26 -> r < R -> c < C ->
  res_bind (res_bind (res_bind (rotate_cw1 R C (well_id r c)) (rotate_cw1 C R)) (rotate_cw1 R C)) (rotate_cw1 C R)
  = Ok (well_id r c).
Proof. exact xf_rot_four. Qed.
Print Assumptions C15_rot_four.

Theorem C15_rot_four_ccw : forall R C r c, R <= 26 -> C <= 26 -> r < R -> c < C ->
  res_bind (res_bind (res_bind (rotate_ccw1 R C (well_id r c)) (rotate_ccw1 C R)) (rotate_ccw1 R C)) (rotate_ccw1 C R)
  = Ok (well_id r c).
Proof. exact xf_rot_four_ccw. Qed.
Print Assumptions C15_rot_four_ccw.

(** strings that are not wells of the plate are rejected *)
Theorem C15_rot_reject : forall R C w, (forall r c, r < R -> c < C -> w <> well_id r c) ->
  rotate_cw1 R C w = Err EReject /\ rotate_ccw1 R C w = Err EReject.
Proof. exact xf_rot_reject. Qed.
Print Assumptions C15_rot_reject.

(** ** arrays: same shape, elementwise action *)

(** a successful call returns an array of the same shape whose entries are the images of the entries *)
Theorem C15_shape : forall s R C (a b : arr string),
  (shift s a = Ok b -> same_shape a b /\ amap (shift1 s) a = amap Ok b) /\
  (unshift s a = Ok b -> same_shape a b /\ amap (unshift1 s) a = amap Ok b) /\
  (rotate_cw R C a = Ok b -> same_shape a b /\ amap (rotate_cw1 R C) a = amap Ok b) /\
  (rotate_ccw R C a = Ok b -> same_shape a b /\ amap (rotate_ccw1 R C) a = amap Ok b).
Proof. exact xf_shape_all. Qed.
Print Assumptions C15_shape.

(** conversely, if every entry has an image then the array of images is the result *)
Theorem C15_elementwise : forall s R C (a b : arr string),
  (amap (shift1 s) a = amap Ok b -> shift s a = Ok b) /\
  (amap (unshift1 s) a = amap Ok b -> unshift s a = Ok b) /\
  (amap (rotate_cw1 R C) a = amap Ok b -> rotate_cw R C a = Ok b) /\
  (amap (rotate_ccw1 R C) a = amap Ok b -> rotate_ccw R C a = Ok b).
Proof. exact xf_elementwise_all. Qed.
Print Assumptions C15_elementwise.

(** the call succeeds as soon as every entry is accepted ... *)
Theorem C15_total : forall s R C (a : arr string),
  ((forall w, In w (flattenC a) -> exists w', shift1 s w = Ok w') -> exists b, shift s a = Ok b) /\
  ((forall w, In w (flattenC a) -> exists w', unshift1 s w = Ok w') -> exists b, unshift s a = Ok b) /\
  ((forall w, In w (flattenC a) -> exists w', rotate_cw1 R C w = Ok w') -> exists b, rotate_cw R C a = Ok b) /\
  ((forall w, In w (flattenC a) -> exists w', rotate_ccw1 R C w = Ok w') -> exists b, rotate_ccw R C a = Ok b).
Proof. exact xf_total_all. Qed.
Print Assumptions C15_total.

(** ... and a failure is the failure of one of the entries *)
Theorem C15_error : forall s R C (a : arr string) e,
  (shift s a = Err e -> exists w, In w (flattenC a) /\ shift1 s w = Err e) /\
  (unshift s a = Err e -> exists w, In w (flattenC a) /\ unshift1 s w = Err e) /\
  (rotate_cw R C a = Err e -> exists w, In w (flattenC a) /\ rotate_cw1 R C w = Err e) /\
  (rotate_ccw R C a = Err e -> exists w, In w (flattenC a) /\ rotate_ccw1 R C w = Err e).
Proof. exact xf_err_all. Qed.
Print Assumptions C15_error.

(** on whole arrays the transforms are mutually inverse *)
Theorem C15_array_inverse : forall RA CA RB CB anchor s R C (a b : arr string),
  RB <= 26 -> mk_shifter RA CA RB CB anchor = Ok s -> R <= 26 -> C <= 26 ->
  (shift s a = Ok b -> unshift s b = Ok a) /\
  (unshift s b = Ok a -> shift s a = Ok b) /\
  (rotate_cw R C a = Ok b -> rotate_ccw C R b = Ok a) /\
  (rotate_ccw R C a = Ok b -> rotate_cw C R b = Ok a).
Proof. exact xf_array_inverse. Qed.
Print Assumptions C15_array_inverse.

Theorem C15_shape_rand : forall t (a : arr string),
  randomize t a = amap (lookup t) a /\ derandomize t a = amap (lookup (invert t)) a /\
  same_shape a (randomize t a) /\ same_shape a (derandomize t a).
Proof. exact xf_rand_shape. Qed.
Print Assumptions C15_shape_rand.

(** ** randomisation: the realised lookup table [t] (graph of an injective map) *)

Theorem C15_rand_inverse : forall t w w', NoDup (map fst t) -> NoDup (map snd t) ->
  (lookup t w = Some w' <-> lookup (invert t) w' = Some w).
Proof. exact xf_rand_inverse. Qed.
Print Assumptions C15_rand_inverse.

(** derandomize undoes randomize (and conversely) on arrays all of whose entries are in the table *)
Theorem C15_rand_array_inverse : forall t (a b : arr string), NoDup (map fst t) -> NoDup (map snd t) ->
  (randomize t a = amap Some b -> derandomize t b = amap Some a) /\
  (derandomize t b = amap Some a -> randomize t a = amap Some b).
Proof. exact xf_rand_array_inverse. Qed.
Print Assumptions C15_rand_array_inverse.

Theorem C15_rand_total : forall t (a : arr string),
  (forall w, In w (flattenC a) -> In w (map fst t)) -> exists b, randomize t a = amap Some b.
Proof. exact xf_rand_total. Qed.
Print Assumptions C15_rand_total.

(** if the values of the table are a rearrangement of its keys (a permutation of the plate) the
    lookup is a bijection of the key set onto itself *)
Theorem C15_rand_permutation : forall t, NoDup (map fst t) -> Permutation (map fst t) (map snd t) ->
  NoDup (map snd t) /\
  (forall w, In w (map fst t) -> exists w', lookup t w = Some w' /\ In w' (map fst t)) /\
  (forall w', In w' (map fst t) -> exists w, In w (map fst t) /\ lookup t w = Some w') /\
  (forall w1 w2 w', lookup t w1 = Some w' -> lookup t w2 = Some w' -> w1 = w2).
Proof. exact xf_rand_permutation. Qed.
Print Assumptions C15_rand_permutation.

(** row / column mode: a relation that holds for every pair of the table (same row letter, same column
    digits, ...) holds between every well and its image, in both directions *)
Theorem C15_rand_rel : forall (P : string -> string -> Prop) t,
  (forall k v, In (k, v) t -> P k v) ->
  (forall w w', lookup t w = Some w' -> P w w') /\
  (forall w w', lookup (invert t) w' = Some w -> P w w').
Proof. exact xf_rand_rel. Qed.
Print Assumptions C15_rand_rel.

(** ** non-vacuity *)
Local Open Scope string_scope.

(** a 2 x 3 plate shifted into an 8 x 12 plate with A01 going to C05 *)
Example C15_example_shift :
  mk_shifter 2 3 8 12 "C05" =
    Ok {| sh_RA := 2; sh_CA := 3; sh_RB := 8; sh_CB := 12; sh_dr := 2; sh_dc := 4 |} /\
  (let s := {| sh_RA := 2; sh_CA := 3; sh_RB := 8; sh_CB := 12; sh_dr := 2; sh_dc := 4 |} in
   shift s (A2 [["A01"; "A03"]; ["B02"; "B03"]]) = Ok (A2 [["C05"; "C07"]; ["D06"; "D07"]]) /\
   unshift s (A2 [["C05"; "C07"]; ["D06"; "D07"]]) = Ok (A2 [["A01"; "A03"]; ["B02"; "B03"]]) /\
   shift s (A1 ["A01"; "C01"]) = Err EReject /\
   unshift s (A0 "A01") = Err EReject) /\
  mk_shifter 2 3 8 12 "G11" = Err EValue /\
  mk_shifter 2 3 8 12 "I01" = Err EReject.
Proof. vm_compute. repeat split. Qed.

Example C15_example_rot :
  rotate_cw 2 3 (A2 [["A01"; "A02"; "A03"]; ["B01"; "B02"; "B03"]])
    = Ok (A2 [["A02"; "B02"; "C02"]; ["A01"; "B01"; "C01"]]) /\
  rotate_ccw 3 2 (A2 [["A02"; "B02"; "C02"]; ["A01"; "B01"; "C01"]])
    = Ok (A2 [["A01"; "A02"; "A03"]; ["B01"; "B02"; "B03"]]) /\
  rotate_cw 2 3 (A1 ["A01"; "C01"]) = Err EReject.
Proof. vm_compute. repeat split. Qed.

Example C15_example_rand :
  NoDup (map fst xf_demo_table) /\ NoDup (map snd xf_demo_table) /\
  Permutation (map fst xf_demo_table) (map snd xf_demo_table) /\
  (forall k v, In (k, v) xf_demo_table -> str_head k = str_head v).
Proof. exact xf_demo_table_ok. Qed.

Example C15_example_rand_eval :
  xf_demo_table = [("A01", "A02"); ("A02", "A01"); ("B01", "B01"); ("B02", "B02")] /\
  randomize xf_demo_table (A1 ["A01"; "B02"; "A02"]) = amap Some (A1 ["A02"; "B02"; "A01"]) /\
  derandomize xf_demo_table (A1 ["A02"; "B02"; "A01"]) = amap Some (A1 ["A01"; "B02"; "A02"]) /\
  randomize xf_demo_table (A0 "C01") = A0 None.
Proof. vm_compute. repeat split. Qed.
