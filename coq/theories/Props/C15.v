(** C15 — well transforms: shift/unshift, rotate_cw/rotate_ccw and randomize/derandomize are mutually
    inverse, shape-preserving, elementwise maps on well ids.
    Statements only; proofs live in Proofs/TransformProofs.v.
    Plates have at most 26 rows (one row letter per row); the bound is stated wherever it is used.
    For the shifter only [RB <= 26] is assumed: [RA <= 26] follows from [RA + dr <= RB].
    The lookup table of the randomiser is CONSTRUCTED (section "the table built by the constructor";
    the definitions [mk_rand_table], [rand_requests], [rand_table_of], ... are in Model/Transform.v - it is
    [mk_rand_table] that Corr/CheckPure.v evaluates -, the proofs in Proofs/RandomizerProofs.v) from the
    arrays that the calls of
    [rng.permutation] returned; those draws are the only unknown and "each draw is a Permutation of
    the array the generator was asked to permute" is the only hypothesis. *)
From Robo Require Import Prelude Str Wells Transform TransformProofs RandomizerProofs.
From Coq Require Import Permutation.

(** two arrays have the same constructor and the same lengths *)
Definition same_shape {A B} (a : arr A) (b : arr B) : Prop :=
  match a, b with
  | A0 _, A0 _ => True
  | A1 xs, A1 ys => length xs = length ys
  | A2 rs, A2 qs => map (@length A) rs = map (@length B) qs
  | _, _ => False
  end.

(** ** well ids and the plate index (used by all statements below) *)

Theorem C15_well_id_index : forall R C r c, R <= 26 -> r < R -> c < C ->
  make_well_index R C (well_id r c) = Some (r, c).
Proof. exact xf_index_well_id. Qed.
Print Assumptions C15_well_id_index.

Theorem C15_index_well_id : forall R C s r c, make_well_index R C s = Some (r, c) ->
  s = well_id r c /\ r < R /\ r < 26 /\ c < C.
Proof. exact xf_index_inv. Qed.
Print Assumptions C15_index_well_id.

Theorem C15_well_id_injective : forall r c r' c', r < 26 -> r' < 26 ->
  well_id r c = well_id r' c' -> r = r' /\ c = c'.
Proof. exact xf_well_id_injective. Qed.
Print Assumptions C15_well_id_injective.

(** ** shifting *)

(** a shifter that was accepted has the anchor's (row, column) as offset, plate A fits into plate B at
    that offset, and every well (r, c) of A is sent to the well (r + dr, c + dc), which is on plate B *)
Theorem C15_shift_offset : forall RA CA RB CB anchor s,
  RB <= 26 -> mk_shifter RA CA RB CB anchor = Ok s ->
  anchor = well_id (sh_dr s) (sh_dc s) /\
  RA + sh_dr s <= RB /\ CA + sh_dc s <= CB /\
  forall r c, r < RA -> c < CA ->
    shift1 s (well_id r c) = Ok (well_id (r + sh_dr s) (c + sh_dc s)) /\
    make_well_index RB CB (well_id (r + sh_dr s) (c + sh_dc s)) = Some (r + sh_dr s, c + sh_dc s).
Proof. exact xf_shift_offset. Qed.
Print Assumptions C15_shift_offset.

(** the anchor is a well of B but A would stick out: ValueError *)
Theorem C15_shift_refused : forall RA CA RB CB dr dc,
  RB <= 26 -> dr < RB -> dc < CB -> RB < RA + dr \/ CB < CA + dc ->
  mk_shifter RA CA RB CB (well_id dr dc) = Err EValue.
Proof. exact xf_shift_refused_value. Qed.
Print Assumptions C15_shift_refused.

(** the anchor is not a well of B: refused (some exception) *)
Theorem C15_shift_refused_anchor : forall RA CA RB CB anchor,
  (forall r c, r < RB -> c < CB -> anchor <> well_id r c) ->
  mk_shifter RA CA RB CB anchor = Err EReject.
Proof. exact xf_shift_refused_anchor. Qed.
Print Assumptions C15_shift_refused_anchor.

(** shift and unshift are mutually inverse partial maps; both are injective.
    Wells of B outside the area A was shifted to (above / left of the anchor as well as below / right of
    the area) are rejected by [unshift1] (model: [Err EReject]; library: IndexError, since fix 91d7131 also
    above / left of the anchor, where negative indices used to wrap around). *)
Theorem C15_shift_inverse : forall RA CA RB CB anchor s,
  RB <= 26 -> mk_shifter RA CA RB CB anchor = Ok s ->
  (forall w w', shift1 s w = Ok w' -> unshift1 s w' = Ok w) /\
  (forall w w', unshift1 s w' = Ok w -> shift1 s w = Ok w') /\
  (forall w1 w2 w', shift1 s w1 = Ok w' -> shift1 s w2 = Ok w' -> w1 = w2) /\
  (forall w1' w2' w, unshift1 s w1' = Ok w -> unshift1 s w2' = Ok w -> w1' = w2').
Proof. exact xf_shift_inverse. Qed.
Print Assumptions C15_shift_inverse.

(** ** rotation *)

(** clockwise: (r, c) -> (c, R-1-r); counter-clockwise: (r, c) -> (C-1-c, r); both land on the C x R plate;
    the counter-clockwise rotator of the transposed plate undoes the clockwise one and vice versa *)
Theorem C15_rot : forall R C, R <= 26 -> C <= 26 ->
  (forall r c, r < R -> c < C ->
     rotate_cw1 R C (well_id r c) = Ok (well_id c (R - 1 - r)) /\
     make_well_index C R (well_id c (R - 1 - r)) = Some (c, R - 1 - r) /\
     rotate_ccw1 R C (well_id r c) = Ok (well_id (C - 1 - c) r) /\
     make_well_index C R (well_id (C - 1 - c) r) = Some (C - 1 - c, r)) /\
  (forall w w', rotate_cw1 R C w = Ok w' -> rotate_ccw1 C R w' = Ok w) /\
  (forall w w', rotate_ccw1 R C w = Ok w' -> rotate_cw1 C R w' = Ok w).
Proof. exact xf_rot_spec. Qed.
Print Assumptions C15_rot.

(** four quarter turns (alternating the R x C and the C x R rotator) are the identity *)
Theorem C15_rot_four : forall R C r c, R <= 26 -> C <= 26 -> r < R -> c < C ->
  res_bind (res_bind (res_bind (rotate_cw1 R C (well_id r c)) (rotate_cw1 C R)) (rotate_cw1 R C)) (rotate_cw1 C R)
  = Ok (well_id r c).
Proof. exact xf_rot_four. Qed.
Print Assumptions C15_rot_four.

Theorem C15_rot_four_ccw : forall R C r c, R <= 26 -> C <= 26 -> r < R -> c < C ->
  res_bind (res_bind (res_bind (rotate_ccw1 R C (well_id r c)) (rotate_ccw1 C R)) (rotate_ccw1 R C)) (rotate_ccw1 C R)
  = Ok (well_id r c).
Proof. exact xf_rot_four_ccw. Qed.
Print Assumptions C15_rot_four_ccw.

(** strings that are not wells of the plate are rejected *)
Theorem C15_rot_reject : forall R C w, (forall r c, r < R -> c < C -> w <> well_id r c) ->
  rotate_cw1 R C w = Err EReject /\ rotate_ccw1 R C w = Err EReject.
Proof. exact xf_rot_reject. Qed.
Print Assumptions C15_rot_reject.

(** ** arrays: same shape, elementwise action *)

(** a successful call returns an array of the same shape whose entries are the images of the entries *)
Theorem C15_shape : forall s R C (a b : arr string),
  (shift s a = Ok b -> same_shape a b /\ amap (shift1 s) a = amap Ok b) /\
  (unshift s a = Ok b -> same_shape a b /\ amap (unshift1 s) a = amap Ok b) /\
  (rotate_cw R C a = Ok b -> same_shape a b /\ amap (rotate_cw1 R C) a = amap Ok b) /\
  (rotate_ccw R C a = Ok b -> same_shape a b /\ amap (rotate_ccw1 R C) a = amap Ok b).
Proof. exact xf_shape_all. Qed.
Print Assumptions C15_shape.

(** conversely, if every entry has an image then the array of images is the result *)
Theorem C15_elementwise : forall s R C (a b : arr string),
  (amap (shift1 s) a = amap Ok b -> shift s a = Ok b) /\
  (amap (unshift1 s) a = amap Ok b -> unshift s a = Ok b) /\
  (amap (rotate_cw1 R C) a = amap Ok b -> rotate_cw R C a = Ok b) /\
  (amap (rotate_ccw1 R C) a = amap Ok b -> rotate_ccw R C a = Ok b).
Proof. exact xf_elementwise_all. Qed.
Print Assumptions C15_elementwise.

(** the call succeeds as soon as every entry is accepted ... *)
Theorem C15_total : forall s R C (a : arr string),
  ((forall w, In w (flattenC a) -> exists w', shift1 s w = Ok w') -> exists b, shift s a = Ok b) /\
  ((forall w, In w (flattenC a) -> exists w', unshift1 s w = Ok w') -> exists b, unshift s a = Ok b) /\
  ((forall w, In w (flattenC a) -> exists w', rotate_cw1 R C w = Ok w') -> exists b, rotate_cw R C a = Ok b) /\
  ((forall w, In w (flattenC a) -> exists w', rotate_ccw1 R C w = Ok w') -> exists b, rotate_ccw R C a = Ok b).
Proof. exact xf_total_all. Qed.
Print Assumptions C15_total.

(** ... and a failure is the failure of one of the entries *)
Theorem C15_error : forall s R C (a : arr string) e,
  (shift s a = Err e -> exists w, In w (flattenC a) /\ shift1 s w = Err e) /\
  (unshift s a = Err e -> exists w, In w (flattenC a) /\ unshift1 s w = Err e) /\
  (rotate_cw R C a = Err e -> exists w, In w (flattenC a) /\ rotate_cw1 R C w = Err e) /\
  (rotate_ccw R C a = Err e -> exists w, In w (flattenC a) /\ rotate_ccw1 R C w = Err e).
Proof. exact xf_err_all. Qed.
Print Assumptions C15_error.

(** on whole arrays the transforms are mutually inverse *)
Theorem C15_array_inverse : forall RA CA RB CB anchor s R C (a b : arr string),
  RB <= 26 -> mk_shifter RA CA RB CB anchor = Ok s -> R <= 26 -> C <= 26 ->
  (shift s a = Ok b -> unshift s b = Ok a) /\
  (unshift s b = Ok a -> shift s a = Ok b) /\
  (rotate_cw R C a = Ok b -> rotate_ccw C R b = Ok a) /\
  (rotate_ccw R C a = Ok b -> rotate_cw C R b = Ok a).
Proof. exact xf_array_inverse. Qed.
Print Assumptions C15_array_inverse.

Theorem C15_shape_rand : forall t (a : arr string),
  randomize t a = amap (lookup t) a /\ derandomize t a = amap (lookup (invert t)) a /\
  same_shape a (randomize t a) /\ same_shape a (derandomize t a).
Proof. exact xf_rand_shape. Qed.
Print Assumptions C15_shape_rand.

(** ** randomisation: facts about an arbitrary lookup table [t] (graph of an injective map).
    Their hypotheses on [t] are discharged for the table the constructor builds in the next section. *)

Theorem C15_rand_inverse : forall t w w', NoDup (map fst t) -> NoDup (map snd t) ->
  (lookup t w = Some w' <-> lookup (invert t) w' = Some w).
Proof. exact xf_rand_inverse. Qed.
Print Assumptions C15_rand_inverse.

(** derandomize undoes randomize (and conversely) on arrays all of whose entries are in the table *)
Theorem C15_rand_array_inverse : forall t (a b : arr string), NoDup (map fst t) -> NoDup (map snd t) ->
  (randomize t a = amap Some b -> derandomize t b = amap Some a) /\
  (derandomize t b = amap Some a -> randomize t a = amap Some b).
Proof. exact xf_rand_array_inverse. Qed.
Print Assumptions C15_rand_array_inverse.

Theorem C15_rand_total : forall t (a : arr string),
  (forall w, In w (flattenC a) -> In w (map fst t)) -> exists b, randomize t a = amap Some b.
Proof. exact xf_rand_total. Qed.
Print Assumptions C15_rand_total.

(** if the values of the table are a rearrangement of its keys (a permutation of the plate) the
    lookup is a bijection of the key set onto itself *)
Theorem C15_rand_permutation : forall t, NoDup (map fst t) -> Permutation (map fst t) (map snd t) ->
  NoDup (map snd t) /\
  (forall w, In w (map fst t) -> exists w', lookup t w = Some w' /\ In w' (map fst t)) /\
  (forall w', In w' (map fst t) -> exists w, In w (map fst t) /\ lookup t w = Some w') /\
  (forall w1 w2 w', lookup t w1 = Some w' -> lookup t w2 = Some w' -> w1 = w2).
Proof. exact xf_rand_permutation. Qed.
Print Assumptions C15_rand_permutation.

(** row / column mode: a relation that holds for every pair of the table (same row letter, same column
    digits, ...) holds between every well and its image, in both directions *)
Theorem C15_rand_rel : forall (P : string -> string -> Prop) t,
  (forall k v, In (k, v) t -> P k v) ->
  (forall w w', lookup t w = Some w' -> P w w') /\
  (forall w w', lookup (invert t) w' = Some w -> P w w').
Proof. exact xf_rand_rel. Qed.
Print Assumptions C15_rand_rel.

(** ** randomisation: the table built by the constructor

    [WellRandomizer((R, C), seed, mode).lookup] is [mk_rand_table mode R C draws], where [draws] lists, in
    call order, the arrays returned by [rng.permutation]: one shuffled copy of the row-major well list
    (mode "full"), of each row from top to bottom ("row"), of each column from left to right ("column").
    "Fully determined by the seed": the table is a function of (mode, R, C, draws) only; the map
    seed -> draws is numpy's generator and is outside the model.  The harness (suites/pure.py) checks that
    two constructions with one seed give equal tables; that [mk_rand_table] applied to the draws numpy makes
    is the library's [lookup] (items in insertion order, IndexError cases included) was checked by a
    generated [vm_compute] comparison over 17 shapes x 5 seeds x 3 modes (see [C15_example_rand_ctor]). *)

(** the definitions (they live in Model/Transform.v and are evaluated by the correspondence check), restated *)
Theorem C15_rand_table_def :
  (forall R C, well_columns R C = map (fun c => map (fun r => well_id r c) (seq 0 (Nat.min 26 R))) (seq 0 C)) /\
  (forall reqs draws,
     rand_table_of reqs draws = concat (map (fun rd => zip (fst rd) (snd rd)) (zip reqs draws))) /\
  (forall R C p, rand_table_full R C p = zip (concat (make_well_array R C)) p) /\
  (forall R C ps, rand_table_row R C ps = rand_table_of (make_well_array R C) ps) /\
  (forall R C ps, rand_table_column R C ps = rand_table_of (well_columns R C) ps) /\
  (forall R C, rand_requests RFull R C = [concat (make_well_array R C)] /\
               rand_requests RRow R C = make_well_array R C /\
               rand_requests RColumn R C = well_columns R C) /\
  (forall m R C draws,
     mk_rand_table m R C draws =
       if match m with
          | RFull => false
          | RRow => (26 <? R)%nat
          | RColumn => ((R =? 0) && (0 <? C))%nat
          end
       then Err EReject else Ok (rand_table_of (rand_requests m R C) draws)).
Proof. exact xf_rand_table_def. Qed.
Print Assumptions C15_rand_table_def.

(** the plate: the wells listed by [make_well_array R C] are exactly the strings [make_well_index R C]
    accepts, i.e. the ids [well_id r c] with r < min R 26 and c < C, each listed once *)
Theorem C15_plate_index : forall R C w,
  In w (concat (make_well_array R C)) <-> exists r c, make_well_index R C w = Some (r, c).
Proof. exact rz_in_plate_index. Qed.
Print Assumptions C15_plate_index.

Theorem C15_plate_wells : forall R C w,
  In w (concat (make_well_array R C)) <-> exists r c, r < R /\ r < 26 /\ c < C /\ w = well_id r c.
Proof. exact rz_in_plate. Qed.
Print Assumptions C15_plate_wells.

Theorem C15_plate_nodup : forall R C, NoDup (concat (make_well_array R C)).
Proof. exact rz_nodup_plate. Qed.
Print Assumptions C15_plate_nodup.

(** [well_columns R C] is [[full[:, c] for c in range(C)]]; its wells are those of the plate *)
Theorem C15_plate_columns : forall R C,
  length (well_columns R C) = C /\
  forall c, c < C ->
    nth c (well_columns R C) [] = map (fun row => nth c row EmptyString) (make_well_array R C).
Proof. exact rz_columns_spec. Qed.
Print Assumptions C15_plate_columns.

Theorem C15_plate_columns_perm : forall R C,
  Permutation (concat (make_well_array R C)) (concat (well_columns R C)).
Proof. exact rz_columns_perm. Qed.
Print Assumptions C15_plate_columns_perm.

(** mode "full": the keys are the plate in row-major order, the values are the draw *)
Theorem C15_rand_table_full : forall R C p, Permutation (concat (make_well_array R C)) p ->
  let t := rand_table_full R C p in
  map fst t = concat (make_well_array R C) /\ map snd t = p /\
  NoDup (map fst t) /\ NoDup (map snd t) /\ Permutation (map fst t) (map snd t).
Proof. exact xf_rand_table_full. Qed.
Print Assumptions C15_rand_table_full.

(** mode "row": keys in row-major order, values the concatenated draws, every pair within one row *)
Theorem C15_rand_table_row : forall R C ps, Forall2 (@Permutation string) (make_well_array R C) ps ->
  let t := rand_table_row R C ps in
  map fst t = concat (make_well_array R C) /\ map snd t = concat ps /\
  NoDup (map fst t) /\ NoDup (map snd t) /\ Permutation (map fst t) (map snd t) /\
  (forall k v, In (k, v) t ->
     (exists r c c', r < R /\ r < 26 /\ c < C /\ c' < C /\ k = well_id r c /\ v = well_id r c') /\
     str_head k = str_head v).
Proof. exact xf_rand_table_row. Qed.
Print Assumptions C15_rand_table_row.

(** mode "column": keys in column-major order (a rearrangement of the plate), every pair within one column *)
Theorem C15_rand_table_column : forall R C ps, Forall2 (@Permutation string) (well_columns R C) ps ->
  let t := rand_table_column R C ps in
  map fst t = concat (well_columns R C) /\ map snd t = concat ps /\
  Permutation (concat (make_well_array R C)) (map fst t) /\
  NoDup (map fst t) /\ NoDup (map snd t) /\ Permutation (map fst t) (map snd t) /\
  (forall k v, In (k, v) t ->
     (exists r r' c, r < R /\ r < 26 /\ r' < R /\ r' < 26 /\ c < C /\ k = well_id r c /\ v = well_id r' c) /\
     str_tail k = str_tail v).
Proof. exact xf_rand_table_column. Qed.
Print Assumptions C15_rand_table_column.

(** the constructor returns these tables ... *)
Theorem C15_rand_ctor_modes : forall R C,
  (forall p, mk_rand_table RFull R C [p] = Ok (rand_table_full R C p)) /\
  (forall ps, R <= 26 -> mk_rand_table RRow R C ps = Ok (rand_table_row R C ps)) /\
  (forall ps, (R = 0 -> C = 0) -> mk_rand_table RColumn R C ps = Ok (rand_table_column R C ps)).
Proof. exact xf_rand_ctor_modes. Qed.
Print Assumptions C15_rand_ctor_modes.

(** ... and raises (IndexError) exactly in row mode with more than 26 rows and in column mode with no row
    but some column; in every other case the table is [rand_table_of requests draws] *)
Theorem C15_rand_ctor_raises : forall m R C draws,
  (mk_rand_table m R C draws = Err EReject <-> (m = RRow /\ 26 < R) \/ (m = RColumn /\ R = 0 /\ 0 < C)) /\
  (forall e, mk_rand_table m R C draws = Err e -> e = EReject) /\
  (forall t, mk_rand_table m R C draws = Ok t -> t = rand_table_of (rand_requests m R C) draws).
Proof. exact xf_rand_ctor_raises. Qed.
Print Assumptions C15_rand_ctor_raises.

(** every mode: keys = the requests in call order (row-major plate except in column mode), values = the
    draws, no key and no value repeated, the values are a rearrangement of the keys, the keys of the plate *)
Theorem C15_rand_ctor_table : forall m R C draws t,
  Forall2 (@Permutation string) (rand_requests m R C) draws ->
  mk_rand_table m R C draws = Ok t ->
  map fst t = concat (rand_requests m R C) /\ map snd t = concat draws /\
  (m <> RColumn -> map fst t = concat (make_well_array R C)) /\
  Permutation (concat (make_well_array R C)) (map fst t) /\
  NoDup (map fst t) /\ NoDup (map snd t) /\ Permutation (map fst t) (map snd t).
Proof. exact xf_rand_ctor_table. Qed.
Print Assumptions C15_rand_ctor_table.

(** randomisation is a permutation of the plate ([C15_rand_permutation], [C15_rand_inverse],
    [C15_rand_array_inverse], [C15_rand_total] for the constructed table): the lookup is total on the plate,
    onto the plate and injective, the reverse lookup is its inverse, strings that are not wells of the plate
    have no image ([dict.get] gives None), derandomize undoes randomize on arrays and conversely *)
Theorem C15_rand_ctor_bijection : forall m R C draws t,
  Forall2 (@Permutation string) (rand_requests m R C) draws ->
  mk_rand_table m R C draws = Ok t ->
  (forall w, In w (concat (make_well_array R C)) ->
     exists w', lookup t w = Some w' /\ In w' (concat (make_well_array R C))) /\
  (forall w', In w' (concat (make_well_array R C)) ->
     exists w, In w (concat (make_well_array R C)) /\ lookup t w = Some w') /\
  (forall w1 w2 w', lookup t w1 = Some w' -> lookup t w2 = Some w' -> w1 = w2) /\
  (forall w w', lookup t w = Some w' <-> lookup (invert t) w' = Some w) /\
  (forall w, ~ In w (concat (make_well_array R C)) -> lookup t w = None /\ lookup (invert t) w = None) /\
  (forall a b : arr string, randomize t a = amap Some b <-> derandomize t b = amap Some a) /\
  (forall a : arr string, (forall w, In w (flattenC a) -> In w (concat (make_well_array R C))) ->
     exists b, randomize t a = amap Some b /\ derandomize t b = amap Some a).
Proof. exact xf_rand_ctor_bijection. Qed.
Print Assumptions C15_rand_ctor_bijection.

(** row mode keeps every well in its row, column mode in its column ([C15_rand_rel] for the constructed
    table), for randomize and for derandomize *)
Theorem C15_rand_ctor_row : forall R C ps t,
  Forall2 (@Permutation string) (make_well_array R C) ps ->
  mk_rand_table RRow R C ps = Ok t ->
  forall w w', lookup t w = Some w' \/ lookup (invert t) w' = Some w ->
    (exists r c c', r < R /\ r < 26 /\ c < C /\ c' < C /\ w = well_id r c /\ w' = well_id r c') /\
    str_head w = str_head w'.
Proof. exact xf_rand_ctor_row. Qed.
Print Assumptions C15_rand_ctor_row.

Theorem C15_rand_ctor_column : forall R C ps t,
  Forall2 (@Permutation string) (well_columns R C) ps ->
  mk_rand_table RColumn R C ps = Ok t ->
  forall w w', lookup t w = Some w' \/ lookup (invert t) w' = Some w ->
    (exists r r' c, r < R /\ r < 26 /\ r' < R /\ r' < 26 /\ c < C /\ w = well_id r c /\ w' = well_id r' c) /\
    str_tail w = str_tail w'.
Proof. exact xf_rand_ctor_column. Qed.
Print Assumptions C15_rand_ctor_column.

(** ** non-vacuity *)
Local Open Scope string_scope.

(** a 2 x 3 plate shifted into an 8 x 12 plate with A01 going to C05 *)
Example C15_example_shift :
  mk_shifter 2 3 8 12 "C05" =
    Ok {| sh_RA := 2; sh_CA := 3; sh_RB := 8; sh_CB := 12; sh_dr := 2; sh_dc := 4 |} /\
  (let s := {| sh_RA := 2; sh_CA := 3; sh_RB := 8; sh_CB := 12; sh_dr := 2; sh_dc := 4 |} in
   shift s (A2 [["A01"; "A03"]; ["B02"; "B03"]]) = Ok (A2 [["C05"; "C07"]; ["D06"; "D07"]]) /\
   unshift s (A2 [["C05"; "C07"]; ["D06"; "D07"]]) = Ok (A2 [["A01"; "A03"]; ["B02"; "B03"]]) /\
   shift s (A1 ["A01"; "C01"]) = Err EReject /\
   unshift s (A0 "A01") = Err EReject) /\
  mk_shifter 2 3 8 12 "G11" = Err EValue /\
  mk_shifter 2 3 8 12 "I01" = Err EReject.
Proof. vm_compute. repeat split. Qed.

Example C15_example_rot :
  rotate_cw 2 3 (A2 [["A01"; "A02"; "A03"]; ["B01"; "B02"; "B03"]])
    = Ok (A2 [["A02"; "B02"; "C02"]; ["A01"; "B01"; "C01"]]) /\
  rotate_ccw 3 2 (A2 [["A02"; "B02"; "C02"]; ["A01"; "B01"; "C01"]])
    = Ok (A2 [["A01"; "A02"; "A03"]; ["B01"; "B02"; "B03"]]) /\
  rotate_cw 2 3 (A1 ["A01"; "C01"]) = Err EReject.
Proof. vm_compute. repeat split. Qed.

Example C15_example_rand :
  NoDup (map fst xf_demo_table) /\ NoDup (map snd xf_demo_table) /\
  Permutation (map fst xf_demo_table) (map snd xf_demo_table) /\
  (forall k v, In (k, v) xf_demo_table -> str_head k = str_head v).
Proof. exact xf_demo_table_ok. Qed.

Example C15_example_rand_eval :
  xf_demo_table = [("A01", "A02"); ("A02", "A01"); ("B01", "B01"); ("B02", "B02")] /\
  randomize xf_demo_table (A1 ["A01"; "B02"; "A02"]) = amap Some (A1 ["A02"; "B02"; "A01"]) /\
  derandomize xf_demo_table (A1 ["A02"; "B02"; "A01"]) = amap Some (A1 ["A01"; "B02"; "A02"]) /\
  randomize xf_demo_table (A0 "C01") = A0 None.
Proof. vm_compute. repeat split. Qed.

(** the draws numpy makes for seed 7 on the 2 x 3 plate (one per call of [rng.permutation]) satisfy the
    hypothesis of the constructor theorems in all three modes *)
Example C15_example_rand_draws :
  Forall2 (@Permutation string) (rand_requests RFull 2 3) [xf_draw_full_2x3] /\
  Forall2 (@Permutation string) (rand_requests RRow 2 3) xf_draws_row_2x3 /\
  Forall2 (@Permutation string) (rand_requests RColumn 2 3) xf_draws_column_2x3.
Proof. exact xf_draws_2x3_ok. Qed.

(** ... and the constructed tables are the items of [WellRandomizer((2, 3), 7, mode=...).lookup] in
    insertion order (column mode inserts column by column) *)
Example C15_example_rand_ctor :
  xf_draw_full_2x3 = ["B01"; "B03"; "A01"; "A03"; "A02"; "B02"] /\
  xf_draws_row_2x3 = [["A03"; "A02"; "A01"]; ["B01"; "B02"; "B03"]] /\
  xf_draws_column_2x3 = [["A01"; "B01"]; ["B02"; "A02"]; ["A03"; "B03"]] /\
  rand_requests RColumn 2 3 = [["A01"; "B01"]; ["A02"; "B02"]; ["A03"; "B03"]] /\
  mk_rand_table RFull 2 3 [xf_draw_full_2x3] =
    Ok [("A01", "B01"); ("A02", "B03"); ("A03", "A01"); ("B01", "A03"); ("B02", "A02"); ("B03", "B02")] /\
  mk_rand_table RRow 2 3 xf_draws_row_2x3 =
    Ok [("A01", "A03"); ("A02", "A02"); ("A03", "A01"); ("B01", "B01"); ("B02", "B02"); ("B03", "B03")] /\
  mk_rand_table RColumn 2 3 xf_draws_column_2x3 =
    Ok [("A01", "A01"); ("B01", "B01"); ("A02", "B02"); ("B02", "A02"); ("A03", "A03"); ("B03", "B03")] /\
  randomize (rand_table_full 2 3 xf_draw_full_2x3) (A2 [["A01"; "B03"]; ["A02"; "C01"]])
    = A2 [[Some "B01"; Some "B02"]; [Some "B03"; None]] /\
  derandomize (rand_table_full 2 3 xf_draw_full_2x3) (A1 ["B01"; "B02"; "B03"]) = amap Some (A1 ["A01"; "B03"; "A02"]).
Proof. vm_compute. repeat split. Qed.

(** shapes on which the constructor raises IndexError, and their neighbours on which it does not *)
Example C15_example_rand_raises :
  mk_rand_table RRow 27 1 (map (fun w => [w]) (concat (make_well_array 27 1))) = Err EReject /\
  mk_rand_table RColumn 0 3 [] = Err EReject /\
  mk_rand_table RFull 27 1 [concat (make_well_array 27 1)] = Ok (rand_table_full 26 1 (concat (make_well_array 26 1))) /\
  mk_rand_table RColumn 27 1 [concat (make_well_array 27 1)] = Ok (rand_table_full 26 1 (concat (make_well_array 26 1))) /\
  mk_rand_table RRow 0 3 [] = Ok [] /\ mk_rand_table RFull 0 3 [[]] = Ok [] /\ mk_rand_table RColumn 3 0 [] = Ok [].
Proof. vm_compute. repeat split. Qed.
