(** C11 — the labware history is append-only, one entry per operation, and truthful.
    Every successful operation extends the history without altering or dropping earlier entries;
    add / remove / aspirate / dispense contribute one entry per call; a transfer or distribute that
    moves liquid contributes exactly one entry per participating labware (one in total on the same
    labware) however many sub-steps or large-volume splits it needed; the newest entry equals the
    current volumes and carries the operation's label (extended by the large-volume note), and the
    reported number of large-volume steps is the number of extra pipetting pairs.
    Statements only; proofs live in Proofs/HistoryProofs.v.
    (Snapshot / aliasing semantics of the Python arrays and the text of [report] are observed by the
    test harness; they cannot be stated in a value model.  In particular the report TEXT is not modelled:
    C11_report_length / _entry / _append at the end of this file are facts about the list [report_entries]
    the text is built from, see the comment there.) *)
From Robo Require Import ReportProofs.
From Robo Require Import Prelude Str Wells Utils Labware Tips Records Partition Params Worklist
  EvoCmd Program HistoryProofs.

(** the (source, destination, volume) triples of a transfer call, after broadcasting *)
Definition call_triples (swells dwells : arr string) (vols : arr Q) : list triple :=
  let sw := flattenF swells in
  let dw := flattenF dwells in
  let vs := flattenF vols in
  let nmax := Nat.max (length sw) (Nat.max (length dw) (length vs)) in
  zip (zip (broadcast sw nmax) (broadcast dw nmax)) (broadcast vs nmax).

(** source [ks] and destination [kd] each got exactly one new entry, labelled [lab], whose snapshot
    is the current volume array; nothing else changed.  For [ks = kd] both clauses speak about the
    same labware: one entry in total. *)
Definition one_entry_each (s s' : state) (ks kd : nat) (lab : option string) : Prop :=
  length (st_lw s') = length (st_lw s) /\
  (forall j, j <> ks -> j <> kd -> nth_error (st_lw s') j = nth_error (st_lw s) j) /\
  exists Ls Ld Ls' Ld',
    nth_error (st_lw s) ks = Some Ls /\ nth_error (st_lw s) kd = Some Ld /\
    nth_error (st_lw s') ks = Some Ls' /\ nth_error (st_lw s') kd = Some Ld' /\
    lw_hist Ls' = lw_hist Ls ++ [(lab, lw_vols Ls')] /\
    lw_hist Ld' = lw_hist Ld ++ [(lab, lw_vols Ld')].

(** a rejected call: nothing dropped, at most one new entry on any labware, labelled [lab] *)
Definition at_most_one_entry (s s' : state) (ks kd : nat) (lab : option string) : Prop :=
  length (st_lw s') = length (st_lw s) /\
  (forall j, j <> ks -> j <> kd -> nth_error (st_lw s') j = nth_error (st_lw s) j) /\
  forall j L, nth_error (st_lw s) j = Some L ->
    exists L' d, nth_error (st_lw s') j = Some L' /\ lw_hist L' = lw_hist L ++ d /\
                 length d <= 1 /\ Forall (fun en : option string * list Q => fst en = lab) d.

(** every entry that existed before is still there, unaltered, at the same place *)
Definition earlier_entries_kept (l l' : list labware) : Prop :=
  forall j L, nth_error l j = Some L ->
    exists L', nth_error l' j = Some L' /\
               length (lw_hist L) <= length (lw_hist L') /\
               firstn (length (lw_hist L)) (lw_hist L') = lw_hist L.

(** every API call except [condense_log(n)] with [n >= 1] *)
Definition not_condensing (o : op) : Prop :=
  match o with OCondense _ n _ => n = 0 | _ => True end.

(* ------------------------------------------------------------------------------------------ *)
(** * direct add / remove *)

Theorem C11_add : forall L wells vols label comps L',
  add L wells vols label comps = (L', None) ->
  lw_hist L' = lw_hist L ++ [(label, lw_vols L')].
Proof. exact add_hist_ok. Qed.
Print Assumptions C11_add.

Theorem C11_add_rejected : forall L wells vols label comps L' e,
  add L wells vols label comps = (L', Some e) -> lw_hist L' = lw_hist L.
Proof. exact add_hist_err. Qed.
Print Assumptions C11_add_rejected.

Theorem C11_remove : forall L wells vols label L',
  remove L wells vols label = (L', None) ->
  lw_hist L' = lw_hist L ++ [(label, lw_vols L')].
Proof. exact remove_hist_ok. Qed.
Print Assumptions C11_remove.

Theorem C11_remove_rejected : forall L wells vols label L' e,
  remove L wells vols label = (L', Some e) -> lw_hist L' = lw_hist L.
Proof. exact remove_hist_err. Qed.
Print Assumptions C11_remove_rejected.

(* ------------------------------------------------------------------------------------------ *)
(** * condense_log *)

Theorem C11_condense_zero : forall L label, condense_log L 0 label = L.
Proof. exact condense_log_zero. Qed.
Print Assumptions C11_condense_zero.

(** only the history is touched *)
Theorem C11_condense_fields : forall L n label,
  lw_vols (condense_log L n label) = lw_vols L /\ lw_comp (condense_log L n label) = lw_comp L /\
  lw_name (condense_log L n label) = lw_name L /\ lw_geom (condense_log L n label) = lw_geom L /\
  lw_min (condense_log L n label) = lw_min L /\ lw_max (condense_log L n label) = lw_max L.
Proof. exact condense_fields. Qed.
Print Assumptions C11_condense_fields.

(** an ordinary label: the last [n] entries become one entry with that label and the newest state *)
Theorem C11_condense : forall L n label,
  1 <= n -> n <= length (lw_hist L) ->
  label <> Some "first"%string -> label <> Some "last"%string ->
  lw_hist (condense_log L n label) =
  firstn (length (lw_hist L) - n) (lw_hist L) ++ [(label, snd (last (lw_hist L) (None, [])))].
Proof. exact condense_plain. Qed.
Print Assumptions C11_condense.

(** the keyword "last": label of the newest entry (the newest entry is kept as it is) *)
Theorem C11_condense_last : forall L n,
  1 <= n -> n <= length (lw_hist L) ->
  lw_hist (condense_log L n (Some "last"%string)) =
  firstn (length (lw_hist L) - n) (lw_hist L) ++ [last (lw_hist L) (None, [])].
Proof. exact condense_last. Qed.
Print Assumptions C11_condense_last.

(** the keyword "first": label of the oldest condensed entry — which is looked up once more if it
    is itself the string "last" *)
Theorem C11_condense_first : forall L n,
  1 <= n -> n <= length (lw_hist L) ->
  lw_hist (condense_log L n (Some "first"%string)) =
  firstn (length (lw_hist L) - n) (lw_hist L) ++
  [(match fst (nth (length (lw_hist L) - n) (lw_hist L) (None, [])) with
    | Some f => if String.eqb f "last" then fst (last (lw_hist L) (None, [])) else Some f
    | None => None
    end,
    snd (last (lw_hist L) (None, [])))].
Proof. exact condense_first. Qed.
Print Assumptions C11_condense_first.

(* ------------------------------------------------------------------------------------------ *)
(** * the large-volume note *)

Theorem C11_lvh_label :
  (forall label, lvh_label label 0 = label) /\
  (forall l k, 0 < k -> l <> EmptyString ->
     lvh_label (Some l) k = Some (l ++ " (" ++ dec k ++ " LVH steps)")%string) /\
  (forall k, 0 < k -> lvh_label (Some EmptyString) k = Some (dec k ++ " LVH steps")%string) /\
  (forall k, 0 < k -> lvh_label None k = Some (dec k ++ " LVH steps")%string).
Proof. exact lvh_label_spec. Qed.
Print Assumptions C11_lvh_label.

(** the number in the note = executed aspirate/dispense pairs minus triples with a positive volume,
    for either partitioning side, with or without splitting (negative volumes never reach [plan]:
    [transfer] refuses them) *)
Theorem C11_lvh_count : forall (autosplit : bool) (m : Q) (mode : pmode) (triples : list triple),
  (0 < m)%Q ->
  lvh_extra autosplit m triples + length (filter (fun t : triple => Qltb 0 (snd t)) triples)
  = n_steps (plan autosplit m mode triples).
Proof. exact lvh_count. Qed.
Print Assumptions C11_lvh_count.

(** the number of executed pairs does not depend on the partitioning side *)
Theorem C11_steps_mode : forall autosplit m mode mode' triples,
  n_steps (plan autosplit m mode triples) = n_steps (plan autosplit m mode' triples).
Proof. exact n_steps_plan_mode. Qed.
Print Assumptions C11_steps_mode.

(* ------------------------------------------------------------------------------------------ *)
(** * worklist aspirate / dispense *)

(** Labware other than [k] is untouched.  Labware [k] becomes what [remove] returned: if [remove]
    accepted, its history grew by exactly [(label, current volumes)] — also when a later record
    emission fails —, otherwise the history is unchanged and the error is passed on. *)
Theorem C11_aspirate : forall s k wells vols label kw s' e,
  aspirate s k wells vols label kw = (s', e) ->
  length (st_lw s') = length (st_lw s) /\
  (forall j, j <> k -> nth_error (st_lw s') j = nth_error (st_lw s) j) /\
  (nth_error (st_lw s) k = None -> s' = s /\ e = Some EReject) /\
  forall L, nth_error (st_lw s) k = Some L ->
    exists L' er,
      remove L (A1 (fst (wells_vols wells vols))) (A1 (snd (wells_vols wells vols))) label = (L', er) /\
      nth_error (st_lw s') k = Some L' /\
      (er = None -> lw_hist L' = lw_hist L ++ [(label, lw_vols L')]) /\
      (forall e0, er = Some e0 -> lw_hist L' = lw_hist L /\ e = Some e0) /\
      (e = None -> lw_hist L' = lw_hist L ++ [(label, lw_vols L')]).
Proof. exact aspirate_spec. Qed.
Print Assumptions C11_aspirate.

Theorem C11_dispense : forall s k wells vols label comps kw s' e,
  dispense s k wells vols label comps kw = (s', e) ->
  length (st_lw s') = length (st_lw s) /\
  (forall j, j <> k -> nth_error (st_lw s') j = nth_error (st_lw s) j) /\
  (nth_error (st_lw s) k = None -> s' = s /\ e = Some EReject) /\
  forall L, nth_error (st_lw s) k = Some L ->
    exists L' er,
      add L (A1 (fst (wells_vols wells vols))) (A1 (snd (wells_vols wells vols))) label comps = (L', er) /\
      nth_error (st_lw s') k = Some L' /\
      (er = None -> lw_hist L' = lw_hist L ++ [(label, lw_vols L')]) /\
      (forall e0, er = Some e0 -> lw_hist L' = lw_hist L /\ e = Some e0) /\
      (e = None -> lw_hist L' = lw_hist L ++ [(label, lw_vols L')]).
Proof. exact dispense_spec. Qed.
Print Assumptions C11_dispense.

(* ------------------------------------------------------------------------------------------ *)
(** * execution of a transfer plan *)

(** Whatever the outcome: labware other than [ks], [kd] is untouched and the histories of [ks], [kd]
    only grow, by unlabelled entries.  On success the number of appended entries is the number of
    steps on [ks] and on [kd] (twice that if [ks = kd]), and the newest one is the current state. *)
Theorem C11_exec : forall s ks kd acts ws kw s' e,
  exec s ks kd acts ws kw = (s', e) ->
  (forall j, j <> ks -> j <> kd -> nth_error (st_lw s') j = nth_error (st_lw s) j) /\
  (forall j L, nth_error (st_lw s) j = Some L ->
     exists L' d, nth_error (st_lw s') j = Some L' /\ lw_hist L' = lw_hist L ++ d /\
                  Forall (fun en : option string * list Q => fst en = None) d) /\
  (e = None ->
   forall j L, nth_error (st_lw s) j = Some L ->
     exists L' d, nth_error (st_lw s') j = Some L' /\ lw_hist L' = lw_hist L ++ d /\
                  Forall (fun en : option string * list Q => fst en = None) d /\
                  length d = (if (j =? ks)%nat then n_steps acts else 0) +
                             (if (j =? kd)%nat then n_steps acts else 0) /\
                  (d <> [] -> snd (last d (None, [])) = lw_vols L')).
Proof. exact exec_hist. Qed.
Print Assumptions C11_exec.

(* ------------------------------------------------------------------------------------------ *)
(** * transfer *)

(** With [n] the number of executed aspirate/dispense pairs (the same for either partitioning side,
    C11_steps_mode) and [lab] the label with its large-volume note:
    nothing moved — no labware changed at all;
    otherwise exactly one new entry per participating labware, equal to the current volumes and
    labelled [lab], provided [lab] is not one of the two keyword strings of [condense_log];
    if it is, the entry is there but its label is [None] (finding F13, see the refutation below). *)
Theorem C11_transfer : forall s ks swells kd dwells vols label ws pb kw s',
  transfer s ks swells kd dwells vols label ws pb kw = (s', None) ->
  forall mode,
  let triples := call_triples swells dwells vols in
  let a := w_autosplit (st_wl s) in
  let m := w_max (st_wl s) in
  let n := n_steps (plan a m mode triples) in
  let lab := lvh_label label (lvh_extra a m triples) in
  (n = 0 -> st_lw s' = st_lw s) /\
  (1 <= n -> lab <> Some "first"%string -> lab <> Some "last"%string ->
   one_entry_each s s' ks kd lab) /\
  (1 <= n -> lab = Some "first"%string \/ lab = Some "last"%string ->
   one_entry_each s s' ks kd None).
Proof. exact transfer_spec. Qed.
Print Assumptions C11_transfer.

(* ------------------------------------------------------------------------------------------ *)
(** * distribute *)

(** accepted (also for [ks = kd], where the model condenses the two entries into one; the keyword
    strings do no harm here because the condensed entries carry the very same label) *)
Theorem C11_distribute : forall s ks kd dwells a s',
  distribute s ks kd dwells a = (s', None) -> one_entry_each s s' ks kd (d_label a).
Proof. exact distribute_hist_ok. Qed.
Print Assumptions C11_distribute.

(** any outcome: either both tracking calls were done (this includes a failure of the record
    emission at the end), or the call was rejected having logged at most one entry *)
Theorem C11_distribute_any : forall s ks kd dwells a s' e,
  distribute s ks kd dwells a = (s', e) ->
  one_entry_each s s' ks kd (d_label a) \/
  (e <> None /\ at_most_one_entry s s' ks kd (d_label a)).
Proof. exact distribute_hist. Qed.
Print Assumptions C11_distribute_any.

(* ------------------------------------------------------------------------------------------ *)
(** * earlier entries are never altered or dropped *)

(** one call, accepted or rejected, of any kind except [condense_log(n >= 1)] *)
Theorem C11_step_prefix : forall s o s' e,
  not_condensing o -> step s o = (s', e) -> earlier_entries_kept (st_lw s) (st_lw s').
Proof. exact step_old. Qed.
Print Assumptions C11_step_prefix.

Theorem C11_run_prefix : forall ops s s' es,
  Forall not_condensing ops -> run s ops = (s', es) -> earlier_entries_kept (st_lw s) (st_lw s').
Proof. exact run_old. Qed.
Print Assumptions C11_run_prefix.

(* ------------------------------------------------------------------------------------------ *)
(** * examples *)

Local Open Scope string_scope.

Definition ex_plate (name : string) (v : Q) : labware :=
  {| lw_name := name; lw_geom := {| g_rows := 2; g_cols := 2; g_vrows := None |};
     lw_min := 0; lw_max := 5000; lw_vols := [v; v; v; v]; lw_comp := [];
     lw_hist := [(Some "initial", [v; v; v; v])] |}.
Definition ex_trough (name : string) (v : Q) : labware :=
  {| lw_name := name; lw_geom := {| g_rows := 1; g_cols := 2; g_vrows := Some 2 |};
     lw_min := 0; lw_max := 50000; lw_vols := [v; v]; lw_comp := [];
     lw_hist := [(Some "initial", [v; v])] |}.
Definition ex_state : state :=
  {| st_lw := [ex_plate "src" 3000; ex_plate "dst" 0]; st_wl := init_wl Evo 950 true false |}.
Definition ex_tstate : state :=
  {| st_lw := [ex_trough "src" 10000; ex_plate "dst" 0]; st_wl := init_wl Evo 950 true false |}.
Definition ex_dist : distargs :=
  {| d_source_column := 0; d_volume := RVInt 100; d_diti_reuse := 1; d_multi_disp := 1;
     d_liquid_class := PStr "Water"; d_label := Some "dist"; d_direction := "left_to_right";
     d_src_id := PStr ""; d_src_type := PStr ""; d_dst_id := PStr ""; d_dst_type := PStr "" |}.

(** a split transfer (2000 = 3 steps, 500 = 1 step at max_volume 950): four aspirate/dispense pairs,
    two of them extra, and still one entry per labware, labelled with the note *)
Example C11_example_split :
  let r := transfer ex_state 0 (A1 ["A01"; "B01"]) 1 (A1 ["A01"; "B02"]) (A1 [2000%Q; 500%Q])
                    (Some "mix") (SInt 1) "auto" kw_default in
  snd r = None /\
  map lw_hist (st_lw (fst r)) =
  [[(Some "initial", [3000; 3000; 3000; 3000]%Q); (Some "mix (2 LVH steps)", [1000; 3000; 2500; 3000]%Q)];
   [(Some "initial", [0; 0; 0; 0]%Q); (Some "mix (2 LVH steps)", [2000; 0; 0; 500]%Q)]] /\
  map lw_vols (st_lw (fst r)) = [[1000; 3000; 2500; 3000]%Q; [2000; 0; 0; 500]%Q] /\
  n_steps (plan true 950 BySource (call_triples (A1 ["A01"; "B01"]) (A1 ["A01"; "B02"]) (A1 [2000%Q; 500%Q]))) = 4 /\
  lvh_extra true 950 (call_triples (A1 ["A01"; "B01"]) (A1 ["A01"; "B02"]) (A1 [2000%Q; 500%Q])) = 2.
Proof. vm_compute. repeat split. Qed.

(** source and destination on the same labware: one entry in total *)
Example C11_example_same_labware :
  let r := transfer ex_state 0 (A1 ["A01"]) 0 (A1 ["B02"]) (A1 [1000%Q]) (Some "mv") (SInt 1)
                    "auto" kw_default in
  snd r = None /\
  map lw_hist (st_lw (fst r)) =
  [[(Some "initial", [3000; 3000; 3000; 3000]%Q); (Some "mv (1 LVH steps)", [2000; 3000; 3000; 4000]%Q)];
   [(Some "initial", [0; 0; 0; 0]%Q)]].
Proof. vm_compute. repeat split. Qed.

(** a transfer that moves nothing leaves every history alone *)
Example C11_example_nothing :
  let r := transfer ex_state 0 (A1 ["A01"]) 1 (A1 ["A01"]) (A1 [0%Q]) (Some "void") (SInt 1)
                    "auto" kw_default in
  snd r = None /\ st_lw (fst r) = st_lw ex_state.
Proof. vm_compute. repeat split. Qed.

(** Finding F13.  The wanted statement "the newest entry carries the operation's label" is FALSE of
    the model (and of the code) for the label "first" (likewise "last"): the transfer succeeds, one
    entry is logged, but its label is [None].
      forall ..., transfer s ks sw kd dw vols label ws pb kw = (s', None) -> 1 <= n ->
        one_entry_each s s' ks kd (lvh_label label (lvh_extra a m triples))          (* false *)
    C11_transfer above is the strongest true variant (both cases). *)
Theorem C11_label_keyword_refuted :
  exists s ks sw kd dw vols ws pb kw s' Ls',
    transfer s ks sw kd dw vols (Some "first") ws pb kw = (s', None) /\
    lvh_label (Some "first")
      (lvh_extra (w_autosplit (st_wl s)) (w_max (st_wl s)) (call_triples sw dw vols)) = Some "first" /\
    1 <= n_steps (plan (w_autosplit (st_wl s)) (w_max (st_wl s)) BySource (call_triples sw dw vols)) /\
    nth_error (st_lw s') ks = Some Ls' /\
    last (lw_hist Ls') (Some "?", []) = (None, lw_vols Ls').
Proof.
  exists ex_state, 0, (A1 ["A01"]), 1, (A1 ["A01"]), (A1 [100%Q]), (SInt 1), "auto", kw_default.
  exists (fst (transfer ex_state 0 (A1 ["A01"]) 1 (A1 ["A01"]) (A1 [100%Q]) (Some "first") (SInt 1)
                        "auto" kw_default)).
  exists (nth 0 (st_lw (fst (transfer ex_state 0 (A1 ["A01"]) 1 (A1 ["A01"]) (A1 [100%Q])
                                      (Some "first") (SInt 1) "auto" kw_default))) (ex_plate "" 0)).
  vm_compute. repeat split. lia.
Qed.
Print Assumptions C11_label_keyword_refuted.

(** distribute from a trough column into two wells; and within one labware *)
Example C11_example_distribute :
  let r := distribute ex_tstate 0 1 (A1 ["A01"; "B01"]) ex_dist in
  let r' := distribute ex_tstate 0 0 (A1 ["A02"]) ex_dist in
  snd r = None /\
  map lw_hist (st_lw (fst r)) =
  [[(Some "initial", [10000; 10000]%Q); (Some "dist", [9800; 10000]%Q)];
   [(Some "initial", [0; 0; 0; 0]%Q); (Some "dist", [100; 0; 100; 0]%Q)]] /\
  snd r' = None /\
  map lw_hist (st_lw (fst r')) =
  [[(Some "initial", [10000; 10000]%Q); (Some "dist", [9900; 10100]%Q)];
   [(Some "initial", [0; 0; 0; 0]%Q)]].
Proof. vm_compute. repeat split. Qed.

(** [condense_log(1, label)] relabels the newest entry, so the restriction in C11_step_prefix is
    needed: the wanted "entries that existed before are never altered" is false for it *)
Theorem C11_condense_relabels_refuted :
  exists L label, firstn (length (lw_hist L)) (lw_hist (condense_log L 1 label)) <> lw_hist L.
Proof. exists (ex_plate "x" 1), (Some "relabel"). vm_compute. intro C. discriminate C. Qed.
Print Assumptions C11_condense_relabels_refuted.

(** a program with an accepted add, a rejected remove, a distribute, a no-op condensation and a
    comment: the hypotheses of C11_run_prefix hold and entries only accumulate *)
Example C11_example_run :
  let ops := [OAdd 1 (A1 ["A01"]) (A0 (XQ 5)) (Some "a") None;
              ORemove 0 (A1 ["A01"]) (A0 (XQ 50000000)) (Some "r");
              ODistribute 0 1 (A1 ["A01"; "B01"]) ex_dist;
              OCondense 0 0 None; OComment (Some "hello")] in
  Forall not_condensing ops /\
  snd (run ex_tstate ops) = [None; Some EUnderflow; None; None; None] /\
  map lw_hist (st_lw (fst (run ex_tstate ops))) =
  [[(Some "initial", [10000; 10000]%Q); (Some "dist", [9800; 10000]%Q)];
   [(Some "initial", [0; 0; 0; 0]%Q); (Some "a", [5; 0; 0; 0]%Q); (Some "dist", [105; 0; 100; 0]%Q)]].
Proof.
  cbv zeta. split; [repeat constructor|]. vm_compute. repeat split.
Qed.

(** The printable report (review item M8).
    THE REPORT TEXT IS NOT MODELLED.  [report_entries L] (Model/Labware.v, defined as a [map] over [lw_hist L]) is
    the LIST OF ENTRIES THE PRINTABLE REPORT IS BUILT FROM: per history entry the label line (present exactly
    for non-empty labels) and the snapshot rounded to one decimal.  The string that [Labware.report] returns -
    block separators, numpy's array layout - is not a Coq object; the clause "the printable report lists the
    same entries in the same order" is checked by the harness ORACLE only, which parses the blocks of the real
    report text back and compares them with [report_entries].
    The three theorems below are therefore FACTS ABOUT THAT LIST, not about the text: same length as the
    history, i-th entry computed from the i-th history entry, logging appends exactly one entry.  They follow
    from [map_length] / [map_nth] / [map_app] and say nothing beyond the definition of [report_entries]; what
    they contribute is that the list the oracle compares against is in one-to-one, order-preserving
    correspondence with the history that the other C11 theorems speak about. *)
(** fact about the list [report_entries]: as many entries as history entries *)
Theorem C11_report_length : forall L, length (report_entries L) = length (lw_hist L).
Proof. exact report_entries_length. Qed.
Print Assumptions C11_report_length.

(** fact about the list [report_entries]: the i-th entry is the i-th history entry (label, tenths) *)
Theorem C11_report_entry : forall L i d, i < length (lw_hist L) ->
  nth i (report_entries L) d =
    (match fst (nth i (lw_hist L) (None, [])) with
     | Some l => if String.eqb l "" then None else Some l
     | None => None
     end,
     map round1c (snd (nth i (lw_hist L) (None, [])))).
Proof. exact report_entries_nth. Qed.
Print Assumptions C11_report_entry.

(** fact about the list [report_entries]: logging an entry appends exactly one entry to the list and leaves
    the earlier entries alone *)
Theorem C11_report_append : forall L h,
  report_entries (set_hist L (lw_hist L ++ [h])%list) =
  (report_entries L ++ [(match fst h with Some l => if String.eqb l "" then None else Some l | None => None end,
                         map round1c (snd h))])%list.
Proof. exact report_entries_app. Qed.
Print Assumptions C11_report_append.
