(** C05 — composition tracking: starting from wells that consist 100 % of one named component,
    the reported fraction of every component in every well is the volume-weighted mixture computed
    in exact arithmetic; fractions stay in [0, 1], sum to 1 in every non-empty well, removing liquid
    never changes a composition, and component amounts are conserved by transfers.
    Statements only; proofs live in Proofs/MixingProofs.v, Proofs/MixingRunProofs.v (whole programs)
    and Proofs/MixingExtraProofs.v (ideal mixing for whole calls and whole programs, last part of
    this file); the ideal-mixing specification and the invariants are in Spec/Mixing.v.

    Definitions used (Spec/Mixing.v):
      [cget k c]        value bound to component [k] in the composition [c], 0 if absent
      [frac L k i]      reported fraction of [k] in the real well with flat index [i]
      [pfrac L k i]     the same as [get_well_composition] reads it (non-positive entries dropped)
      [well_sum L i]    sum of the fractions of well [i] over all components
      [fresh_keys s ks] the keys of [ks] not in [s], in order
      [add_step], [rem_step]   the body of one iteration of [add_loop] / [remove_loop]
      [comp_inv], [vol_base], [mix_inv], [known_inv], [st_inv], [st_known]   invariants
      [iwell], [iw_remove], [iw_add], [is_transfer], [is_exec]   the ideal-mixing specification
      [abs_well], [abs_state]   the abstraction (V, amt k := V * frac k)
      [lw_amount], [total_amount]   amount of a component in a labware / in all labware
    and, for whole calls and programs (Proofs/MixingExtraProofs.v, restated in the last part):
      [is_add], [is_rem], [is_op], [is_run], ...   ideal meaning of calls and programs
      [iw_dilute], [is_addo]   a liquid of unknown composition enters ("more of what is there")
      [well_clean], [run_clean]   no composition-less addition into an emptied well (REVIEW2 N2) *)
From Robo Require Import Prelude Str Wells Utils Labware Tips Records Partition Params Worklist
  Invariants Mixing WellsProofs MixingProofs.
From Robo Require Import EvoCmd Program MixingRunProofs MixingExtraProofs.
#[local] Open Scope Q_scope.

(* ------------------------------------------------------------------ C05_combine *)

(** The algebra of [combine_composition]: every component gets the volume-weighted mean, the keys
    are those of A followed by the new ones of B, distinctness of names is kept.  The only division
    is by [vA + vB], in the branch where that is not zero. *)
Theorem C05_combine : forall (vA : Q) (cA : composition) (vB : Q) (cB : composition),
  ~ vA + vB == 0 -> NoDup (map fst cB) ->
  (forall k, cget k (combine_composition vA cA vB cB)
             == (vA * cget k cA + vB * cget k cB) / (vA + vB)) /\
  map fst (combine_composition vA cA vB cB)
  = (map fst cA ++ fresh_keys (map fst cA) (map fst cB))%list /\
  (NoDup (map fst cA) -> NoDup (map fst (combine_composition vA cA vB cB))).
Proof.
  exact (fun vA cA vB cB Hs ND =>
           conj (fun k => combine_get vA cA vB cB k Hs ND)
                (conj (combine_keys vA cA vB cB Hs ND)
                      (fun NA => combine_NoDup vA cA vB cB NA ND))).
Qed.
Print Assumptions C05_combine.

(** a zero total volume: no division, A is returned as it is *)
Theorem C05_combine_zero : forall vA cA vB cB,
  vA + vB == 0 -> combine_composition vA cA vB cB = cA.
Proof. exact combine_zero. Qed.
Print Assumptions C05_combine_zero.

(* ------------------------------------------------------------------ C05_bounds *)

Theorem C05_bounds : forall vA cA vB cB k,
  0 <= vA -> 0 <= vB -> 0 < vA + vB -> NoDup (map fst cB) ->
  0 <= cget k cA /\ cget k cA <= 1 -> 0 <= cget k cB /\ cget k cB <= 1 ->
  0 <= cget k (combine_composition vA cA vB cB) /\ cget k (combine_composition vA cA vB cB) <= 1.
Proof. exact combine_get_bounds. Qed.
Print Assumptions C05_bounds.

Theorem C05_bounds_all : forall vA cA vB cB,
  0 <= vA -> 0 <= vB -> 0 < vA + vB -> NoDup (map fst cA) -> NoDup (map fst cB) ->
  Forall (fun kf => 0 <= snd kf /\ snd kf <= 1) cA ->
  Forall (fun kf => 0 <= snd kf /\ snd kf <= 1) cB ->
  Forall (fun kf => 0 <= snd kf /\ snd kf <= 1) (combine_composition vA cA vB cB).
Proof. exact combine_Forall_bounds. Qed.
Print Assumptions C05_bounds_all.

(** the mixed fractions sum to the weighted mean of the sums, hence to 1 if both do *)
Theorem C05_sum : forall vA cA vB cB, ~ vA + vB == 0 ->
  Qsum (map snd (combine_composition vA cA vB cB))
  == (vA * Qsum (map snd cA) + vB * Qsum (map snd cB)) / (vA + vB).
Proof. exact combine_sum. Qed.
Print Assumptions C05_sum.

Theorem C05_sum_one : forall vA cA vB cB, ~ vA + vB == 0 ->
  Qsum (map snd cA) == 1 -> Qsum (map snd cB) == 1 ->
  Qsum (map snd (combine_composition vA cA vB cB)) == 1.
Proof. exact combine_sum_one. Qed.
Print Assumptions C05_sum_one.

(* ------------------------------------------------------------------ C05_self_neutral *)

Theorem C05_self_neutral : forall vA cA vB cB k, ~ vA + vB == 0 -> NoDup (map fst cB) ->
  cget k cB == cget k cA -> cget k (combine_composition vA cA vB cB) == cget k cA.
Proof. exact combine_self. Qed.
Print Assumptions C05_self_neutral.

(* ------------------------------------------------------------------ C05_write_local *)

(** [write_composition L i c] touches nothing but the component table; there it changes position
    [i] only, sets it to the value from [c] for every component named in [c] (new components start
    as all-zero arrays), and keeps all array lengths *)
Theorem C05_write_local : forall (L : labware) (i : nat) (c : composition),
  Forall (fun ka => length (snd ka) = n_wells (lw_geom L)) (lw_comp L) ->
  (i < n_wells (lw_geom L))%nat -> NoDup (map fst c) ->
  let L' := write_composition L i c in
  (lw_name L' = lw_name L /\ lw_geom L' = lw_geom L /\ lw_min L' = lw_min L /\ lw_max L' = lw_max L /\
   lw_vols L' = lw_vols L /\ lw_hist L' = lw_hist L) /\
  Forall (fun ka => length (snd ka) = n_wells (lw_geom L)) (lw_comp L') /\
  map fst (lw_comp L') = (map fst (lw_comp L) ++ fresh_keys (map fst (lw_comp L)) (map fst c))%list /\
  (forall k a, assoc_get k (lw_comp L) = Some a ->
     exists a', assoc_get k (lw_comp L') = Some a' /\ length a' = length a /\
                forall j d, j <> i -> nth j a' d = nth j a d) /\
  (forall k, assoc_get k (lw_comp L) = None -> In k (map fst c) ->
     exists a', assoc_get k (lw_comp L') = Some a' /\ length a' = n_wells (lw_geom L) /\
                forall j, j <> i -> nth j a' 0 = 0) /\
  (forall k, In k (map fst c) -> frac L' k i = cget k c) /\
  (forall k, ~ In k (map fst c) -> assoc_get k (lw_comp L') = assoc_get k (lw_comp L)) /\
  (forall k j, j <> i -> frac L' k j = frac L k j).
Proof. exact write_composition_local. Qed.
Print Assumptions C05_write_local.

(* ------------------------------------------------------------------ C05_remove_neutral *)

Theorem C05_remove_neutral : forall L wells vols label,
  lw_comp (fst (remove L wells vols label)) = lw_comp L.
Proof. exact remove_comp. Qed.
Print Assumptions C05_remove_neutral.

Theorem C05_aspirate_neutral : forall s k wells vols label kw,
  map lw_comp (st_lw (fst (aspirate s k wells vols label kw))) = map lw_comp (st_lw s).
Proof. exact aspirate_comp. Qed.
Print Assumptions C05_aspirate_neutral.

(* ------------------------------------------------------------------ C05_add_step *)

(** an accepted element of [add_loop] / [remove_loop] is one [add_step] / [rem_step] *)
Theorem C05_add_step_loop : forall L w v oc rest i, lw_index L w = Some i ->
  Qgtb (Qred (vol_at L i + v)) (lw_max L) = false ->
  add_loop L ((w, XQ v, oc) :: rest) = add_loop (add_step L i v oc) rest.
Proof. exact add_loop_step. Qed.
Print Assumptions C05_add_step_loop.

Theorem C05_rem_step_loop : forall L w v rest i, lw_index L w = Some i ->
  Qltb (Qred (vol_at L i - v)) (lw_min L) = false ->
  remove_loop L ((w, XQ v) :: rest) = remove_loop (rem_step L i v) rest /\
  lw_comp (rem_step L i v) = lw_comp L.
Proof. exact (fun L w v rest i Ei Eg => conj (remove_loop_step L w v rest i Ei Eg) eq_refl). Qed.
Print Assumptions C05_rem_step_loop.

(** the new volume of the addressed well; other wells keep theirs *)
Theorem C05_add_step_volume : forall L i v oc j, (i < length (lw_vols L))%nat ->
  vol_at (add_step L i v oc) j = if (i =? j)%nat then Qred (vol_at L i + v) else vol_at L j.
Proof. exact vol_at_add_step. Qed.
Print Assumptions C05_add_step_volume.

(** the addressed well holds the volume-weighted mixture (fractions are never negative, see
    C05_invariant, so the hypothesis on the old fraction always holds there) *)
Theorem C05_add_step : forall L i v c k,
  Forall (fun ka => length (snd ka) = n_wells (lw_geom L)) (lw_comp L) ->
  (i < n_wells (lw_geom L))%nat -> NoDup (map fst (lw_comp L)) -> NoDup (map fst c) ->
  ~ vol_at L i + v == 0 -> 0 <= frac L k i ->
  frac (add_step L i v (Some c)) k i
  == (vol_at L i * frac L k i + v * cget k c) / (vol_at L i + v).
Proof. exact add_step_frac_same. Qed.
Print Assumptions C05_add_step.

(** without any sign assumption: what the code reads as the old fraction is [pfrac] *)
Theorem C05_add_step_reported : forall L i v c k,
  Forall (fun ka => length (snd ka) = n_wells (lw_geom L)) (lw_comp L) ->
  (i < n_wells (lw_geom L))%nat -> NoDup (map fst (lw_comp L)) -> NoDup (map fst c) ->
  ~ vol_at L i + v == 0 -> (0 < frac L k i \/ In k (map fst c)) ->
  frac (add_step L i v (Some c)) k i
  == (vol_at L i * pfrac L k i + v * cget k c) / (vol_at L i + v).
Proof. exact add_step_frac_same_p. Qed.
Print Assumptions C05_add_step_reported.

(** every other well keeps all its fractions *)
Theorem C05_add_step_other : forall L i v oc k j,
  Forall (fun ka => length (snd ka) = n_wells (lw_geom L)) (lw_comp L) ->
  (i < n_wells (lw_geom L))%nat -> NoDup (map fst (lw_comp L)) ->
  (match oc with Some c => NoDup (map fst c) | None => True end) ->
  j <> i -> frac (add_step L i v oc) k j = frac L k j.
Proof. exact add_step_frac_other. Qed.
Print Assumptions C05_add_step_other.

(** no composition given, or a zero total volume: the component table is unchanged *)
Theorem C05_add_step_unchanged : forall L i v,
  lw_comp (add_step L i v None) = lw_comp L /\
  forall c, NoDup (map fst (lw_comp L)) -> vol_at L i + v == 0 ->
            lw_comp (add_step L i v (Some c)) = lw_comp L.
Proof. exact (fun L i v => conj (add_step_comp_none L i v) (fun c => add_step_guard L i v c)). Qed.
Print Assumptions C05_add_step_unchanged.

(* ------------------------------------------------------------------ C05_invariant *)

(** what the invariant says about the reported numbers *)
Theorem C05_fractions : forall L, mix_inv L ->
  (forall k i, 0 <= frac L k i /\ frac L k i <= 1) /\
  (forall i, (i < n_wells (lw_geom L))%nat -> 0 <= well_sum L i /\ well_sum L i <= 1) /\
  (forall i, 0 <= vol_at L i).
Proof.
  exact (fun L HI => conj (fun k i => comp_inv_frac L k i (proj2 HI))
                          (conj (fun i Hi => mix_inv_well_sum L i HI Hi)
                                (fun i => vol_base_vol_at L i (proj1 HI)))).
Qed.
Print Assumptions C05_fractions.

(** the volume part of the invariant is implied by the well-formedness invariant of C02 *)
Theorem C05_vol_base : forall L, wf_labware L -> vol_base L.
Proof. exact wf_labware_vol_base. Qed.
Print Assumptions C05_vol_base.

(** established by the constructors, together with "every non-empty well is fully known" *)
Theorem C05_invariant_init :
  (forall a L, mk_labware a = Ok L -> mix_inv L /\ known_inv L) /\
  (forall a L, mk_trough a = Ok L -> mix_inv L /\ known_inv L).
Proof.
  exact (conj (fun a L H => conj (mk_labware_mix_inv a L H) (mk_labware_known a L H))
              (fun a L H => conj (mk_trough_mix_inv a L H) (mk_trough_known a L H))).
Qed.
Print Assumptions C05_invariant_init.

(** preserved by single steps ... *)
Theorem C05_invariant_step : forall L i v,
  mix_inv L -> (i < n_wells (lw_geom L))%nat ->
  (forall oc, 0 <= v -> ocomp_ok oc -> mix_inv (add_step L i v oc)) /\
  (lw_min L <= Qred (vol_at L i - v) -> mix_inv (rem_step L i v)).
Proof.
  exact (fun L i v HI Hi => conj (fun oc Hv Hoc => add_step_inv L i v oc HI Hi Hv Hoc)
                                 (fun Hm => rem_step_inv L i v HI Hm)).
Qed.
Print Assumptions C05_invariant_step.

(** ... by [add] with admissible compositions and by [remove], accepted or rejected ... *)
Theorem C05_invariant_add : forall L wells vols label comps, mix_inv L -> comps_ok comps ->
  mix_inv (fst (add L wells vols label comps)).
Proof. exact add_inv. Qed.
Print Assumptions C05_invariant_add.

Theorem C05_invariant_remove : forall L wells vols label, mix_inv L ->
  mix_inv (fst (remove L wells vols label)).
Proof. exact remove_inv. Qed.
Print Assumptions C05_invariant_remove.

(** ... and by the worklist operations, which pass on the source well's own composition *)
Theorem C05_invariant_state : forall s, st_inv s ->
  (forall k wells vols label kw, st_inv (fst (aspirate s k wells vols label kw))) /\
  (forall k wells vols label comps kw, comps_ok comps ->
     st_inv (fst (dispense s k wells vols label comps kw))) /\
  (forall ks kd sw dw v ws kw, st_inv (fst (exec_step s ks kd sw dw v ws kw))) /\
  (forall ks swells kd dwells vols label ws pb kw,
     st_inv (fst (transfer s ks swells kd dwells vols label ws pb kw))) /\
  (forall ks kd dwells a, st_inv (fst (distribute s ks kd dwells a))).
Proof.
  exact (fun s HI =>
    conj (fun k wells vols label kw => aspirate_inv s k wells vols label kw HI)
   (conj (fun k wells vols label comps kw HC => dispense_inv s k wells vols label comps kw HI HC)
   (conj (fun ks kd sw dw v ws kw => exec_step_inv s ks kd sw dw v ws kw HI)
   (conj (fun ks swells kd dwells vols label ws pb kw =>
            transfer_inv s ks swells kd dwells vols label ws pb kw HI)
         (fun ks kd dwells a => distribute_inv s ks kd dwells a HI))))).
Qed.
Print Assumptions C05_invariant_state.

(** fully known wells stay fully known when the added liquid is fully known; an empty well that
    receives a fully known liquid becomes fully known; other wells are not affected *)
Theorem C05_known_step : forall L i v c, mix_inv L -> (i < n_wells (lw_geom L))%nat ->
  NoDup (map fst c) -> comp_full c ->
  (0 <= v -> fully_known L i -> fully_known (add_step L i v (Some c)) i) /\
  (0 < v -> vol_at L i == 0 -> fully_known (add_step L i v (Some c)) i) /\
  (forall oc j, j <> i -> fully_known L j -> fully_known (add_step L i v oc) j).
Proof.
  exact (fun L i v c HI Hi NC HF =>
    conj (fun Hv HK => add_step_known L i v c HI Hi Hv NC HF HK)
   (conj (fun Hv HE => add_step_known_empty L i v c HI Hi Hv NC HF HE)
         (fun oc j Hj HK => add_step_known_other L i v oc j HI Hi Hj HK))).
Qed.
Print Assumptions C05_known_step.

(** "fractions sum to 1 in every non-empty well" is an invariant of [add] with complete
    compositions, of [remove], and of all worklist operations *)
Theorem C05_known_add : forall L wells vols label comps, mix_inv L -> known_inv L ->
  comps_ok comps -> comps_known comps -> known_inv (fst (add L wells vols label comps)).
Proof. exact add_known_inv. Qed.
Print Assumptions C05_known_add.

Theorem C05_known_remove : forall L wells vols label, mix_inv L -> known_inv L ->
  known_inv (fst (remove L wells vols label)).
Proof. exact remove_known_inv. Qed.
Print Assumptions C05_known_remove.

Theorem C05_known_state : forall s, st_inv s -> st_known s ->
  (forall k wells vols label kw, st_known (fst (aspirate s k wells vols label kw))) /\
  (forall k wells vols label comps kw, comps_ok comps -> comps_known comps ->
     st_known (fst (dispense s k wells vols label comps kw))) /\
  (forall ks kd sw dw v ws kw, st_known (fst (exec_step s ks kd sw dw v ws kw))) /\
  (forall ks swells kd dwells vols label ws pb kw,
     st_known (fst (transfer s ks swells kd dwells vols label ws pb kw))) /\
  (forall ks kd dwells a, st_known (fst (distribute s ks kd dwells a))).
Proof.
  exact (fun s HI HK =>
    conj (fun k wells vols label kw => aspirate_known s k wells vols label kw HI HK)
   (conj (fun k wells vols label comps kw HC HN =>
            dispense_known s k wells vols label comps kw HI HK HC HN)
   (conj (fun ks kd sw dw v ws kw => exec_step_known s ks kd sw dw v ws kw HI HK)
   (conj (fun ks swells kd dwells vols label ws pb kw =>
            transfer_known s ks swells kd dwells vols label ws pb kw HI HK)
         (fun ks kd dwells a => distribute_known s ks kd dwells a HI HK))))).
Qed.
Print Assumptions C05_known_state.

(* ------------------------------------------------------------------ C05_refines *)

(** One successful pipetting step of a positive volume from well [sw] of labware [ks] into well
    [dw] of labware [kd] (the same or another labware, the same or another well) acts on
    (V, amt k := V * frac k) of every well exactly as the ideal transfer: the source amounts are
    scaled by (Vs - v) / Vs, the destination amounts grow by v * frac_s k, all other wells keep
    theirs.  The source well holds at least [v > 0], so the specification divides by positive
    volumes only. *)
Theorem C05_refines : forall s ks kd sw dw v ws kw s', st_inv s -> 0 < v ->
  exec_step s ks kd sw dw v ws kw = (s', None) ->
  exists Ls i_s Ld i_d,
    nth_error (st_lw s) ks = Some Ls /\ lw_index Ls sw = Some i_s /\
    nth_error (st_lw s) kd = Some Ld /\ lw_index Ld dw = Some i_d /\
    (i_s < n_wells (lw_geom Ls))%nat /\ (i_d < n_wells (lw_geom Ld))%nat /\
    v <= vol_at Ls i_s /\
    length (st_lw s') = length (st_lw s) /\
    forall k i, iw_eq (abs_state s' k i) (is_transfer (abs_state s) ks i_s kd i_d v k i).
Proof. exact exec_step_refines. Qed.
Print Assumptions C05_refines.

(** a step of volume zero changes no volume and no amount *)
Theorem C05_refines_zero : forall s ks kd sw dw v ws kw s', st_inv s -> v == 0 ->
  exec_step s ks kd sw dw v ws kw = (s', None) ->
  forall k i, iw_eq (abs_state s' k i) (abs_state s k i).
Proof. exact exec_step_refines_zero. Qed.
Print Assumptions C05_refines_zero.

(** an accepted [transfer] acts as the ideal execution of its plan, step by step *)
Theorem C05_refines_plan : forall acts s ks kd ws kw s' Ls Ld, st_inv s ->
  Forall step_positive acts ->
  nth_error (st_lw s) ks = Some Ls -> nth_error (st_lw s) kd = Some Ld ->
  exec s ks kd acts ws kw = (s', None) ->
  forall k i, iw_eq (abs_state s' k i) (is_exec (abs_state s) ks kd Ls Ld acts k i).
Proof. exact exec_refines. Qed.
Print Assumptions C05_refines_plan.

Theorem C05_refines_transfer : forall s ks swells kd dwells vols label ws pb kw s' Ls Ld,
  st_inv s -> nth_error (st_lw s) ks = Some Ls -> nth_error (st_lw s) kd = Some Ld ->
  transfer s ks swells kd dwells vols label ws pb kw = (s', None) ->
  exists acts, Forall step_positive acts /\
    forall k i, iw_eq (abs_state s' k i) (is_exec (abs_state s) ks kd Ls Ld acts k i).
Proof. exact transfer_refines. Qed.
Print Assumptions C05_refines_transfer.

(* ------------------------------------------------------------------ C05_conserved *)

(** the total amount of every component (volume x fraction over all wells of all labware) is
    unchanged by a successful pipetting step, transfer or distribution; the zero-volume guard of
    the mixing step needs no side condition because volumes are never negative *)
Theorem C05_conserved : forall s k, st_inv s ->
  (forall ks kd sw dw v ws kw s', exec_step s ks kd sw dw v ws kw = (s', None) ->
     total_amount (st_lw s') k == total_amount (st_lw s) k) /\
  (forall ks swells kd dwells vols label ws pb kw s',
     transfer s ks swells kd dwells vols label ws pb kw = (s', None) ->
     total_amount (st_lw s') k == total_amount (st_lw s) k) /\
  (forall ks kd dwells a s', distribute s ks kd dwells a = (s', None) ->
     total_amount (st_lw s') k == total_amount (st_lw s) k).
Proof.
  exact (fun s k HI =>
    conj (fun ks kd sw dw v ws kw s' H => exec_step_conserved s ks kd sw dw v ws kw s' k HI H)
   (conj (fun ks swells kd dwells vols label ws pb kw s' H =>
            transfer_conserved s ks swells kd dwells vols label ws pb kw s' k HI H)
         (fun ks kd dwells a s' H => distribute_conserved s ks kd dwells a s' k HI H))).
Qed.
Print Assumptions C05_conserved.

(** an accepted [add] of liquids of known composition brings in exactly their component amounts *)
Theorem C05_add_amount : forall L wells vols label cs L' k, mix_inv L -> Forall ocomp_ok cs ->
  Forall (fun oc => oc <> None) cs ->
  add L wells vols label (Some cs) = (L', None) ->
  exists wv, prep_wells_vols wells vols = Ok wv /\ length cs = length wv /\
    lw_amount L' k == lw_amount L k
                      + items_amt k (map (fun p => (fst (fst p), snd (fst p), snd p)) (zip wv cs)).
Proof. exact add_amount. Qed.
Print Assumptions C05_add_amount.

(* ------------------------------------------------------------------ C05_names *)

(** Every initially filled well consists 100 % of one component: the name given for the well in
    [a_names], otherwise [name.well] on a labware with more than one real well (rows * columns > 1) and the
    labware name on a single-well one; empty wells have no composition. *)
Theorem C05_names : forall a L, mk_labware a = Ok L ->
  forall r c, (r < g_rows (lw_geom L))%nat -> (c < g_cols (lw_geom L))%nat ->
    let i := (r * g_cols (lw_geom L) + c)%nat in
    (vol_at L i == 0 -> forall k, frac L k i = 0) /\
    (~ vol_at L i == 0 ->
     forall k, frac L k i =
       if String.eqb (init_name (a_name a) (1 <? g_rows (lw_geom L) * g_cols (lw_geom L))%nat (a_names a) (well_id r c)) k
       then 1 else 0).
Proof. exact (fun a L H => proj1 (proj2 (mk_labware_init a L H))). Qed.
Print Assumptions C05_names.

(** explicit names win; the defaults; the per-well defaults are pairwise distinct *)
Theorem C05_names_default : forall name multi names w,
  (forall s, assoc_get w names = Some (Some s) -> init_name name multi names w = s) /\
  (assoc_get w names = None \/ assoc_get w names = Some None ->
   init_name name multi names w = if multi then (name ++ "." ++ w)%string else name).
Proof.
  exact (fun name multi names w =>
           conj (fun s H => init_name_given name multi names w s H)
                (init_name_default name multi names w)).
Qed.
Print Assumptions C05_names_default.

Theorem C05_names_distinct : forall name r c r' c', (r < 26)%nat -> (r' < 26)%nat ->
  (name ++ "." ++ well_id r c)%string = (name ++ "." ++ well_id r' c')%string -> r = r' /\ c = c'.
Proof. exact default_names_distinct. Qed.
Print Assumptions C05_names_distinct.

(** troughs: a filled column consists 100 % of the given column name, otherwise of
    [name.column_NN] (two or more columns) or the trough name (one column) *)
Theorem C05_names_trough : forall a L, mk_trough a = Ok L ->
  exists cn,
    (forall zc, t_cols a = PInt zc ->
       cn = match t_colnames a with
            | CNone => repeat None (Z.to_nat zc) | CStr s => [Some s] | CList l => l end) /\
    length cn = g_cols (lw_geom L) /\ g_rows (lw_geom L) = 1%nat /\ mix_inv L /\
    forall c, (c < g_cols (lw_geom L))%nat ->
      (vol_at L c == 0 -> forall k, frac L k c = 0) /\
      (~ vol_at L c == 0 ->
       forall k, frac L k c =
         if String.eqb (match nth c cn None with
                        | Some s => s
                        | None => trough_default (t_name a) (1 <? g_cols (lw_geom L))%nat c
                        end) k
         then 1 else 0).
Proof. exact mk_trough_init. Qed.
Print Assumptions C05_names_trough.

Theorem C05_names_trough_distinct : forall name c c',
  (name ++ ".column_" ++ pad2 (c + 1))%string = (name ++ ".column_" ++ pad2 (c' + 1))%string -> c = c'.
Proof. exact column_names_distinct. Qed.
Print Assumptions C05_names_trough_distinct.

(** the name table a trough hands to the labware constructor *)
Theorem C05_trough_names : forall name multi cn iv c0 c, (c < length cn)%nat -> length iv = length cn ->
  assoc_get (well_id 0 (c0 + c)) (trough_names name multi c0 cn iv) =
  Some (match nth c cn None with
        | Some s => Some s
        | None => if xnum_pos (nth c iv XNaN) then Some (trough_default name multi (c0 + c)) else None
        end).
Proof. exact trough_names_get. Qed.
Print Assumptions C05_trough_names.

(* ------------------------------------------------------------------ examples *)

#[local] Open Scope string_scope.

(** the mixing algebra on numbers: 100 of pure "a" with 300 of a 1:1 mixture of "a" and "b" *)
Example C05_example_combine :
  map (fun kf => (fst kf, Qred (snd kf)))
      (combine_composition 100 [("a", 1)] 300 [("b", 1 # 2); ("a", 1 # 2)])
  = [("a", 5 # 8); ("b", 3 # 8)] /\
  combine_composition 0 [("a", 1)] 0 [("b", 1)] = [("a", 1)].
Proof. vm_compute. split; reflexivity. Qed.

(** a serial dilution over three wells of a 4 x 1 plate: 200 of "stock" in A01, 50 of diluent
    (default names P.B01, ...) in B01, C01, D01; 50 are carried A01 -> B01 -> C01 -> D01 *)
Definition ex_args : lw_args :=
  {| a_name := "P"; a_rows := PInt 4; a_cols := PInt 1; a_min := XQ 0; a_max := XQ 300;
     a_init := Some (A1 [XQ 200; XQ 50; XQ 50; XQ 50]); a_vrows := None;
     a_names := [("A01", Some "stock")] |}.
Definition ex_w0 : wstate :=
  {| w_recs := []; w_max := 950; w_autosplit := true; w_diti := false; w_dev := Evo |}.
Definition ex_run : option (labware * labware) :=
  match mk_labware ex_args with
  | Ok L =>
      match transfer {| st_lw := [L]; st_wl := ex_w0 |}
                     0 (A1 ["A01"; "B01"; "C01"]) 0 (A1 ["B01"; "C01"; "D01"])
                     (A1 [50; 50; 50]) (Some "dilute") SFlush "auto" kw_default with
      | (s', None) => match st_lw s' with [L'] => Some (L, L') | _ => None end
      | _ => None
      end
  | Err _ => None
  end.

Example C05_example_dilution :
  match ex_run with
  | Some (L, L') =>
      map fst (lw_comp L) = ["stock"; "P.B01"; "P.C01"; "P.D01"] /\
      map fst (lw_comp L') = ["stock"; "P.B01"; "P.C01"; "P.D01"] /\
      map Qred (lw_vols L') = [150; 50; 50; 100] /\
      map (fun i => Qred (frac L "stock" i)) [0; 1; 2; 3]%nat = [1; 0; 0; 0] /\
      map (fun i => Qred (frac L' "stock" i)) [0; 1; 2; 3]%nat = [1; 1 # 2; 1 # 4; 1 # 8] /\
      map (fun i => Qred (frac L' "P.B01" i)) [0; 1; 2; 3]%nat = [0; 1 # 2; 1 # 4; 1 # 8] /\
      map (fun i => Qred (well_sum L' i)) [0; 1; 2; 3]%nat = [1; 1; 1; 1] /\
      map (fun k => Qred (lw_amount L k)) ["stock"; "P.B01"; "P.C01"; "P.D01"] = [200; 50; 50; 50] /\
      map (fun k => Qred (lw_amount L' k)) ["stock"; "P.B01"; "P.C01"; "P.D01"] = [200; 50; 50; 50]
  | None => False
  end.
Proof. vm_compute. repeat split. Qed.

(** a trough with three columns, the second one empty, the third one named by the caller *)
Definition ex_trough_args : trough_args :=
  {| t_name := "T"; t_vrows := PInt 8; t_cols := PInt 3; t_min := XQ 0; t_max := XQ 1000;
     t_init := A1 [XQ 500; XQ 0; XQ 100]; t_colnames := CList [None; None; Some "water"] |}.

Example C05_example_trough :
  match mk_trough ex_trough_args with
  | Ok L => map fst (lw_comp L) = ["T.column_01"; "water"] /\
            map (fun i => Qred (frac L "T.column_01" i)) [0; 1; 2]%nat = [1; 0; 0] /\
            map (fun i => Qred (frac L "water" i)) [0; 1; 2]%nat = [0; 0; 1]
  | Err _ => False
  end.
Proof. vm_compute. repeat split. Qed.

(** a distribution of 25 from trough column 1 into two wells of the plate: the wells hold 1/3 of
    the trough's component afterwards and the component totals over both labware are unchanged *)
Definition ex_dist : distargs :=
  {| d_source_column := 0; d_volume := RVInt 25; d_diti_reuse := 1; d_multi_disp := 1;
     d_liquid_class := PStr "Water"; d_label := Some "dist"; d_direction := "left_to_right";
     d_src_id := PStr ""; d_src_type := PStr ""; d_dst_id := PStr ""; d_dst_type := PStr "" |}.

Example C05_example_distribute :
  match mk_trough ex_trough_args, mk_labware ex_args with
  | Ok T, Ok P =>
      match distribute {| st_lw := [T; P]; st_wl := ex_w0 |} 0 1 (A1 ["B01"; "C01"]) ex_dist with
      | (s', None) =>
          map (fun L => map Qred (lw_vols L)) (st_lw s') = [[450; 0; 100]; [200; 75; 75; 50]] /\
          map (fun k => Qred (total_amount (st_lw s') k)) ["T.column_01"; "water"; "stock"; "P.B01"]
          = [500; 100; 200; 50] /\
          map (fun k => Qred (total_amount [T; P] k)) ["T.column_01"; "water"; "stock"; "P.B01"]
          = [500; 100; 200; 50] /\
          match st_lw s' with
          | [_; P'] => map (fun i => Qred (frac P' "T.column_01" i)) [0; 1; 2; 3]%nat = [0; 1 # 3; 1 # 3; 0]
          | _ => False
          end
      | _ => False
      end
  | _, _ => False
  end.
Proof. vm_compute. repeat split. Qed.

(** non-vacuity of the hypotheses on caller-supplied compositions *)
Example C05_example_comp_ok :
  map fst [("a", 1 # 4); ("b", 3 # 4)] = ["a"; "b"] /\
  Qle_bool 0 (1 # 4) = true /\ Qle_bool (3 # 4) 1 = true /\
  Qeq_bool (Qsum (map snd [("a", 1 # 4); ("b", 3 # 4)])) 1 = true.
Proof. vm_compute. repeat split. Qed.

(* ================================================================== C05_run: whole programs *)

(** The per-operation statements above, lifted to arbitrary programs of Model/Program.v
    ([op], [step], [run]; [run] continues after a rejected call).  Proofs: Proofs/MixingRunProofs.v.

    Classes of operations (defined in Proofs/MixingRunProofs.v, spelled out in [C05_op_classes]):
      [op_comps_ok o]      every composition the call itself supplies ([OAdd], [ODispense], [OEvoDisp])
                           is a dict of fractions, [comps_ok]; no condition on any other operation
      [op_comps_known o]   every such composition is complete, [comps_known] (an addition without
                           composition is excluded); no condition on any other operation
      [op_removal o]       [ORemove], [OAspirate], [OEvoAsp]
      [op_record_only o]   the operations that only write worklist records
      [op_comp_neutral o]  everything but [OAdd], [ODispense], [OEvoDisp], [OTransfer], [ODistribute]
      [op_closed o]        everything but [OAdd], [ORemove], [OAspirate], [ODispense], [OEvoAsp],
                           [OEvoDisp]: liquid neither enters nor leaves the labware set
      [moves_accepted o e] if [o] is [OTransfer] or [ODistribute] then its outcome [e] is [None]
    "The state after any prefix" is [fst (run s (firstn n ops))]; for [n >= length ops] this is the
    final state. *)

Theorem C05_op_classes : forall o : op,
  op_comps_ok o = match o with
                  | OAdd _ _ _ _ cs => comps_ok cs
                  | ODispense _ _ _ _ cs _ => comps_ok cs
                  | OEvoDisp _ _ _ cs => comps_ok cs
                  | _ => True
                  end /\
  op_comps_known o = match o with
                     | OAdd _ _ _ _ cs => comps_known cs
                     | ODispense _ _ _ _ cs _ => comps_known cs
                     | OEvoDisp _ _ _ cs => comps_known cs
                     | _ => True
                     end.
Proof. exact op_classes_spec. Qed.
Print Assumptions C05_op_classes.

(* ------------------------------------------------------------------ C05_step_invariant *)

(** one call of any kind, accepted or rejected, keeps the invariant *)
Theorem C05_step_invariant : forall s o, st_inv s -> op_comps_ok o -> st_inv (fst (step s o)).
Proof. exact step_inv. Qed.
Print Assumptions C05_step_invariant.

(** [condense_log] changes no volume and no composition; a record-only call leaves the labware alone *)
Theorem C05_step_unchanged : forall s,
  (forall k n l, map lw_comp (st_lw (fst (step s (OCondense k n l)))) = map lw_comp (st_lw s) /\
                 map lw_vols (st_lw (fst (step s (OCondense k n l)))) = map lw_vols (st_lw s)) /\
  (forall o, op_record_only o -> st_lw (fst (step s o)) = st_lw s).
Proof. exact (fun s => conj (step_condense_same s) (fun o H => step_record_only s o H)). Qed.
Print Assumptions C05_step_unchanged.

(* ------------------------------------------------------------------ C05_run_invariant *)

(** in every state a program reaches, every fraction and every well sum is in [0, 1] *)
Theorem C05_run_invariant : forall ops s n, st_inv s -> Forall op_comps_ok ops ->
  let s' := fst (run s (firstn n ops)) in
  st_inv s' /\
  forall L, In L (st_lw s') ->
    (forall k i, 0 <= frac L k i /\ frac L k i <= 1) /\
    (forall i, (i < n_wells (lw_geom L))%nat -> 0 <= well_sum L i /\ well_sum L i <= 1) /\
    (forall i, 0 <= vol_at L i).
Proof. exact run_invariant. Qed.
Print Assumptions C05_run_invariant.

(* ------------------------------------------------------------------ C05_run_known *)

Theorem C05_step_known : forall s o, st_inv s -> st_known s -> op_comps_ok o -> op_comps_known o ->
  st_known (fst (step s o)).
Proof. exact step_known. Qed.
Print Assumptions C05_step_known.

(** after any sequence of transfers, distributions, removals and dispenses / additions of known
    composition the fractions of every non-empty well sum to exactly 1 *)
Theorem C05_run_known : forall ops s n, st_inv s -> st_known s -> Forall op_comps_ok ops ->
  Forall op_comps_known ops ->
  let s' := fst (run s (firstn n ops)) in
  st_known s' /\
  forall L, In L (st_lw s') ->
    forall i, (i < n_wells (lw_geom L))%nat -> ~ vol_at L i == 0 -> well_sum L i == 1.
Proof. exact run_known_all. Qed.
Print Assumptions C05_run_known.

(** both, starting from labware as the constructors make it (C05_invariant_init) *)
Theorem C05_run_from_constructors : forall lws w ops n,
  Forall (fun L => (exists a, mk_labware a = Ok L) \/ (exists a, mk_trough a = Ok L)) lws ->
  Forall op_comps_ok ops ->
  let s' := fst (run {| st_lw := lws; st_wl := w |} (firstn n ops)) in
  (forall L, In L (st_lw s') ->
     (forall k i, 0 <= frac L k i /\ frac L k i <= 1) /\
     (forall i, (i < n_wells (lw_geom L))%nat -> 0 <= well_sum L i /\ well_sum L i <= 1) /\
     (forall i, 0 <= vol_at L i)) /\
  (Forall op_comps_known ops ->
   forall L, In L (st_lw s') ->
     forall i, (i < n_wells (lw_geom L))%nat -> ~ vol_at L i == 0 -> well_sum L i == 1).
Proof. exact run_from_constructors. Qed.
Print Assumptions C05_run_from_constructors.

(* ------------------------------------------------------------------ C05_run_removal_neutral *)

(** a removal ([ORemove], [OAspirate], [OEvoAsp]; also [OCondense] and the record-only calls),
    accepted or rejected, at any position of any program, leaves every composition table as it is;
    a program without additions, dispenses, transfers and distributions changes none at all *)
Theorem C05_run_removal_neutral :
  (forall o, op_removal o -> op_comp_neutral o) /\
  (forall s o, op_comp_neutral o -> map lw_comp (st_lw (fst (step s o))) = map lw_comp (st_lw s)) /\
  (forall ops s n o, nth_error ops n = Some o -> op_comp_neutral o ->
     map lw_comp (st_lw (fst (run s (firstn (S n) ops))))
     = map lw_comp (st_lw (fst (run s (firstn n ops))))) /\
  (forall ops s, Forall op_comp_neutral ops ->
     map lw_comp (st_lw (fst (run s ops))) = map lw_comp (st_lw s)).
Proof.
  exact (conj op_removal_neutral
        (conj step_comp_neutral
        (conj run_removal_neutral
              (fun ops s H => run_comp_neutral ops s H)))).
Qed.
Print Assumptions C05_run_removal_neutral.

(* ------------------------------------------------------------------ C05_run_conserved *)

(** a program of transfers, distributions, [condense_log] and record-only calls, all accepted,
    leaves the total amount of every component as it was *)
Theorem C05_run_conserved : forall ops s k, st_inv s -> Forall op_closed ops ->
  Forall (fun e => e = None) (snd (run s ops)) ->
  total_amount (st_lw (fst (run s ops))) k == total_amount (st_lw s) k.
Proof. exact run_conserved. Qed.
Print Assumptions C05_run_conserved.

(** only the transfers and distributions need to be accepted *)
Theorem C05_run_conserved_moves : forall ops s k, st_inv s -> Forall op_closed ops ->
  Forall2 moves_accepted ops (snd (run s ops)) ->
  total_amount (st_lw (fst (run s ops))) k == total_amount (st_lw s) k.
Proof. exact run_conserved_strong. Qed.
Print Assumptions C05_run_conserved_moves.

(** Conservation does NOT extend to rejected transfers.  The statement
      forall ops s k, st_inv s -> Forall op_closed ops ->
        total_amount (st_lw (fst (run s ops))) k == total_amount (st_lw s) k
    is false: a rejected call keeps the effects it had before the failure (as the library does).
    Plate "P" with 200 of "stock" in A01, 50 in B01, at most 220 per well; transfer 200 from A01 to
    B01: A01 is emptied, then B01 overflows, the call raises, and the 200 of "stock" are gone. *)
Theorem C05_run_conserved_any_refuted :
  exists s o k, st_inv s /\ op_closed o /\ snd (step s o) = Some EOverflow /\
    total_amount (st_lw s) k == 200 /\ total_amount (st_lw (fst (step s o))) k == 0.
Proof. exact rejected_transfer_loses. Qed.
Print Assumptions C05_run_conserved_any_refuted.

(** what holds whatever the outcomes: no component amount ever grows ... *)
Theorem C05_run_conserved_any_partial : forall ops s k, st_inv s -> Forall op_closed ops ->
  total_amount (st_lw (fst (run s ops))) k <= total_amount (st_lw s) k.
Proof. exact run_no_gain. Qed.
Print Assumptions C05_run_conserved_any_partial.

(** ... and, per pipetting step of a transfer: either no amount changed, or the step was rejected
    and exactly the aspirated liquid is missing (removed from the source well, never dispensed) *)
Theorem C05_exec_step_any : forall s ks kd sw dw v ws kw k, st_inv s ->
  total_amount (st_lw (fst (exec_step s ks kd sw dw v ws kw))) k == total_amount (st_lw s) k \/
  snd (exec_step s ks kd sw dw v ws kw) <> None /\
  exists Ls i, nth_error (st_lw s) ks = Some Ls /\ lw_index Ls sw = Some i /\ 0 <= v /\
    total_amount (st_lw (fst (exec_step s ks kd sw dw v ws kw))) k
    == total_amount (st_lw s) k - v * frac Ls k i.
Proof. exact exec_step_amount_cases. Qed.
Print Assumptions C05_exec_step_any.

(* ------------------------------------------------------------------ checking the hypotheses *)

(** the hypotheses on caller-supplied compositions are decidable *)
Theorem C05_comps_check : forall ops,
  (forallb op_comps_okb ops = true -> Forall op_comps_ok ops) /\
  (forallb op_comps_knownb ops = true -> Forall op_comps_known ops).
Proof. exact ops_check. Qed.
Print Assumptions C05_comps_check.

(* ------------------------------------------------------------------ example *)

(** a program of four calls on the trough and the plate of the examples above: 50 from A01 to B01;
    25 from trough column 1 into C01 and D01; 50 of a 1:3 mixture of "a" and "b" into A01; 100 out
    of A01 *)
Definition ex_prog : list op :=
  [ OTransfer 1 (A0 "A01") 1 (A0 "B01") (A0 50) (Some "t") SFlush "auto" kw_default;
    ODistribute 0 1 (A1 ["C01"; "D01"]) ex_dist;
    ODispense 1 (A0 "A01") (A0 (XQ 50)) (Some "buffer")
              (Some [Some [("a", 1 # 4); ("b", 3 # 4)]]) kw_default;
    OAspirate 1 (A0 "A01") (A0 (XQ 100)) None kw_default ].

(** its compositions satisfy the hypotheses of C05_run_invariant and C05_run_known *)
Example C05_example_prog_ok :
  forallb op_comps_okb ex_prog = true /\ forallb op_comps_knownb ex_prog = true.
Proof. vm_compute. split; reflexivity. Qed.

(** all four calls are accepted; afterwards every well of the plate has fractions in [0, 1] that
    sum to 1, and the aspirate left the fractions of A01 as the dispense made them *)
Example C05_example_prog :
  match mk_trough ex_trough_args, mk_labware ex_args with
  | Ok T, Ok P =>
      let r := run {| st_lw := [T; P]; st_wl := ex_w0 |} ex_prog in
      snd r = [None; None; None; None] /\
      map (fun L => map Qred (lw_vols L)) (st_lw (fst r)) = [[450; 0; 100]; [100; 100; 75; 75]] /\
      match st_lw (fst r) with
      | [_; P'] =>
          map fst (lw_comp P') = ["stock"; "P.B01"; "P.C01"; "P.D01"; "T.column_01"; "a"; "b"] /\
          map (fun k => map (fun i => Qred (frac P' k i)) [0; 1; 2; 3]%nat) (map fst (lw_comp P'))
          = [[3 # 4; 1 # 2; 0; 0]; [0; 1 # 2; 0; 0]; [0; 0; 2 # 3; 0]; [0; 0; 0; 2 # 3];
             [0; 0; 1 # 3; 1 # 3]; [1 # 16; 0; 0; 0]; [3 # 16; 0; 0; 0]] /\
          map (fun i => Qred (well_sum P' i)) [0; 1; 2; 3]%nat = [1; 1; 1; 1]
      | _ => False
      end /\
      match st_lw (fst (run {| st_lw := [T; P]; st_wl := ex_w0 |} (firstn 3 ex_prog))) with
      | [_; P3] => map (fun k => Qred (frac P3 k 0)) ["stock"; "a"; "b"] = [3 # 4; 1 # 16; 3 # 16] /\
                   Qred (vol_at P3 0) = 200
      | _ => False
      end
  | _, _ => False
  end.
Proof. vm_compute. repeat split. Qed.

(* ================================================================== C05_refines, whole calls and whole
   programs (review item M1): the tracked composition IS ideal volumetric mixing, computed in exact
   arithmetic, for transfers, distributions, additions / dispenses with given compositions and
   removals / aspirations, call by call and along whole programs.
   Proofs: Proofs/MixingExtraProofs.v.  The reference is [iwell] / [is_transfer] / [is_exec] of
   Spec/Mixing.v, extended by the definitions restated in [C05_ideal_*] below:
     [is_add sg k L items]   liquids [(well id, volume, composition)] enter labware [k], one ideal
                             addition [iw_add] per item, in call order (a repeated well is mixed twice)
     [is_addo sg k L items]  the same with optional compositions: an item without composition is one
                             [iw_dilute] (see below); [is_addo] is [is_add] when every one is given
     [is_rem sg k L items]   liquid [(well id, volume)] leaves, one [iw_remove] per item
     [transfer_triples], [dist_steps]   the steps a [transfer] / [distribute] call asks for
     [is_op auto m lws o]    the ideal meaning of one accepted call: [Some f], or [None] if the call
                             has none (unknown labware, non-finite volume, unknown partitioning mode, ...)
     [is_run auto m lws ops] the calls of a program one after the other
     [is_partial], [is_partial_step], [ideal_run]   what rejected calls can leave behind
   Well ids are resolved by [lw_index] on the labware's geometry, which no call ever changes
   ([C05_frame]); trough wells addressed through different virtual rows are the same real well.

   WHAT THE REFERENCE BORROWS FROM THE MODEL (audit REVIEW2, N2b).  [iwell], [iw_add], [iw_remove],
   [is_transfer], [is_exec] (Spec/Mixing.v) and [iw_dilute], [is_add], [is_addo], [is_rem] know
   nothing of the composition tracking.  But the ideal meaning [is_op] of a TRANSFER executes the
   step list computed by the model's own planner: [plan], [optimize_partition_by], and the argument
   handling [broadcast], [flattenF], [lw_index], [evo_vols] in [C05_ideal_op] / [C05_ideal_steps]
   are the model's functions.  Mixing is order-sensitive (A -> B then B -> C is not B -> C then
   A -> B), so "the fold of ideal pipetting steps" is relative to the step ORDER the model itself
   plans; C05 does not say that this order is the right one.  The order is pinned down elsewhere:
   by C07 (C07_group_structure, C07_steps_perm: the steps of the plan are those of the requested
   triples, regrouped; C07_flows, C07_flows_perm, C07_flows_mode: the VOLUME flow per (source,
   destination) pair equals the requested one, independent of the order of the triples and of the
   mode - the compositions are not) and by C18 (C18_group_order, C18_row_order: groups in ascending
   column order, rows ascending within a group; the order among equal keys, C18_stable_model, is
   declared model-only there).  For a [distribute] the order is that of the wells as given
   ([dist_steps]), for [add] / [remove] that of the call's items.

   CALLS WITHOUT A COMPOSITION (audit REVIEW2, N2a).  The English property speaks about "dispenses
   of known composition" only.  The plain calls [wl.dispense(labware, wells, volumes)] /
   [labware.add(wells, volumes)] ([compositions=None], or a [None] entry in the list) - the form
   most scripts use - bring in a liquid of which nothing is known.  They are given an ideal meaning
   by a modelling decision: [iw_dilute], the volume grows and every fraction is kept, i.e. the new
   liquid is booked as "more of what is already there".  The library does exactly that ([Labware.add]
   leaves the fractions alone when no composition is given), so this is what a reader of the
   reported compositions gets; it is NOT volumetric mixing of known liquids.
   Empty well: nothing is there, so nothing is known afterwards - all amounts stay 0
   ([C05_ideal_dilute], third clause, proved without looking at the quotient [(0 + v) / 0]; nothing
   rests on Coq's x / 0 = 0).  Here model and reference DISAGREE in one situation: a well that once
   held liquid and was emptied keeps its last fractions in the library's (and the model's)
   component table, and a later composition-less addition revives them - 30 ul of unknown liquid
   into the emptied "stock" well are reported as 30 ul of stock ([C05_run_refines_unknown_refuted];
   checked against the library, robotools behaves the same).  The theorems for this wider class,
   [C05_*_unknown], therefore carry the explicit hypothesis [run_clean]: every well addressed
   without a composition holds liquid, or has no fraction recorded (a never-filled well), in the
   state the call starts from; it is decided by [run_cleanb] ([C05_clean_check]), holds trivially
   when every composition is given ([C05_mix_is_clean]) and is satisfiable
   ([C05_example_unknown]).  The theorems for the narrower class [op_mix] (every composition
   given) are kept as they were. *)

#[local] Close Scope string_scope.

(* ------------------------------------------------------------------ the definitions, restated *)

Theorem C05_ideal_add : forall sg k L,
  is_add sg k L [] = sg /\
  forall w v c r, is_add sg k L ((w, v, c) :: r) =
    match lw_index L w with
    | Some i => is_add (is_upd sg k i (iw_add (sg k i) v (fun x => cget x c))) k L r
    | None => sg
    end.
Proof. exact is_add_spec. Qed.
Print Assumptions C05_ideal_add.

Theorem C05_ideal_rem : forall sg k L,
  is_rem sg k L [] = sg /\
  forall w v r, is_rem sg k L ((w, v) :: r) =
    match lw_index L w with
    | Some i => is_rem (is_upd sg k i (iw_remove (sg k i) v)) k L r
    | None => sg
    end.
Proof. exact is_rem_spec. Qed.
Print Assumptions C05_ideal_rem.

(** a liquid of unknown composition enters an ideal well: the definition; in a well that is not
    empty every fraction is kept; in a well without tracked amounts (e.g. an empty one) nothing is
    known afterwards, whatever the quotient is *)
Theorem C05_ideal_dilute : forall w v,
  iw_dilute w v = {| iw_vol := iw_vol w + v;
                     iw_amt := fun k => iw_amt w k * ((iw_vol w + v) / iw_vol w) |} /\
  (~ iw_vol w == 0 -> ~ iw_vol w + v == 0 -> forall k, iw_frac (iw_dilute w v) k == iw_frac w k) /\
  ((forall k, iw_amt w k == 0) -> forall k, iw_amt (iw_dilute w v) k == 0).
Proof. exact iw_dilute_spec. Qed.
Print Assumptions C05_ideal_dilute.

Theorem C05_ideal_addo : forall sg k L,
  is_addo sg k L [] = sg /\
  forall w v oc r, is_addo sg k L ((w, v, oc) :: r) =
    match lw_index L w with
    | Some i => is_addo (is_upd sg k i (match oc with
                                        | Some c => iw_add (sg k i) v (fun x => cget x c)
                                        | None => iw_dilute (sg k i) v
                                        end)) k L r
    | None => sg
    end.
Proof. exact is_addo_spec. Qed.
Print Assumptions C05_ideal_addo.

(** the steps of a [transfer] (numpy broadcasting of the three arguments) and of a [distribute] *)
Theorem C05_ideal_steps : forall swells dwells (vols : arr Q) col (dw : arr string) v,
  transfer_triples swells dwells vols =
    (let sw := flattenF swells in let dw := flattenF dwells in let vs := flattenF vols in
     let nmax := Nat.max (length sw) (Nat.max (length dw) (length vs)) in
     zip (zip (broadcast sw nmax) (broadcast dw nmax)) (broadcast vs nmax)) /\
  dist_steps col dw v = map (fun w => Step (well_id 0 (Z.to_nat col)) w v) (flattenF dw).
Proof. exact steps_spec. Qed.
Print Assumptions C05_ideal_steps.

(** [xq_list]: all volumes are finite numbers; [comps_list]: the [compositions] argument as a list
    ([None] = no composition for any well); with every composition given [is_addo] is [is_add] *)
Theorem C05_ideal_lists :
  (forall (vs : list xnum) (qs : list Q), xq_list vs = Some qs <-> vs = map XQ qs) /\
  (forall comps n, comps_list comps n = match comps with Some cs => cs | None => repeat None n end) /\
  (forall k L (ws : list string) (vs : list Q) (cs : list composition) W,
     is_addo W k L (zip (zip ws vs) (map Some cs)) = is_add W k L (zip (zip ws vs) cs)).
Proof. exact call_lists_spec. Qed.
Print Assumptions C05_ideal_lists.

Theorem C05_ideal_call_shapes : forall lws k wells vols comps,
  is_addcall lws k wells vols comps =
    match xq_list (broadcast (flattenF vols) (length (flattenF wells))), nth_error lws k with
    | Some vs, Some L =>
        Some (fun W => is_addo W k L
                         (zip (zip (flattenF wells) vs) (comps_list comps (length (flattenF wells)))))
    | _, _ => None
    end /\
  is_remcall lws k wells vols =
    match xq_list (broadcast (flattenF vols) (length (flattenF wells))), nth_error lws k with
    | Some vs, Some L => Some (fun W => is_rem W k L (zip (flattenF wells) vs))
    | _, _ => None
    end.
Proof. exact call_shapes_spec. Qed.
Print Assumptions C05_ideal_call_shapes.

(** one accepted call ([auto], [m]: auto_split_tips and max_volume of the worklist; [lws]: the
    labware set, of which only the geometries are looked at).
    N2b: the step list of a transfer is the one the MODEL's [plan] computes (mode from the model's
    [optimize_partition_by], arguments through the model's [flattenF] / [broadcast]); the reference
    fixes what every step does ([is_exec] / [is_transfer]), not the order of the steps - see the
    header of this section; the order is the subject of C07 / C18.
    N2a: [is_addcall] gives calls without a composition the meaning [iw_dilute]. *)
Theorem C05_ideal_op : forall auto m lws o,
  is_op auto m lws o =
  match o with
  | OAdd k ws vs _ cs => is_addcall lws k ws vs cs
  | ODispense k ws vs _ cs _ => is_addcall lws k ws vs cs
  | OEvoDisp k a _ cs => is_addcall lws k (c_wells a) (evo_vols (c_volume a)) cs
  | ORemove k ws vs _ => is_remcall lws k ws vs
  | OAspirate k ws vs _ _ => is_remcall lws k ws vs
  | OEvoAsp k a _ => is_remcall lws k (c_wells a) (evo_vols (c_volume a))
  | OTransfer ks sw kd dw vs _ _ pb _ =>
      match nth_error lws ks, nth_error lws kd with
      | Some Ls, Some Ld =>
          match optimize_partition_by (is_trough (lw_geom Ls)) (is_trough (lw_geom Ld)) pb with
          | Ok mode => Some (fun W => is_exec W ks kd Ls Ld (plan auto m mode (transfer_triples sw dw vs)))
          | Err _ => None
          end
      | _, _ => None
      end
  | ODistribute ks kd dw a =>
      match nth_error lws ks, nth_error lws kd, rvol_x (d_volume a) with
      | Some Ls, Some Ld, Some (XQ v) =>
          if Qltb 0 v then Some (fun W => is_exec W ks kd Ls Ld (dist_steps (d_source_column a) dw v))
          else if Qeq_bool v 0 then Some (fun W => W)
          else None
      | _, _, _ => None
      end
  | _ => Some (fun W => W)
  end.
Proof. exact is_op_spec. Qed.
Print Assumptions C05_ideal_op.

Theorem C05_ideal_run : forall auto m lws,
  is_run auto m lws [] = Some (fun W => W) /\
  forall o r, is_run auto m lws (o :: r) =
    match is_op auto m lws o, is_run auto m lws r with
    | Some f, Some g => Some (fun W => g (f W))
    | _, _ => None
    end.
Proof. exact is_run_spec. Qed.
Print Assumptions C05_ideal_run.

(** the programs the run-level theorems speak about: [op_mix o] - every composition the call
    supplies is given and is a dict of fractions; [call_ok o e] - the call was accepted, or it is one
    that moves no liquid whatever its outcome ([condense_log], the record-only calls) *)
Theorem C05_run_classes : forall (o : op) (e : option err),
  op_mix o = match o with
             | OAdd _ _ _ _ cs => comps_given cs
             | ODispense _ _ _ _ cs _ => comps_given cs
             | OEvoDisp _ _ _ cs => comps_given cs
             | _ => True
             end /\
  (forall comps, comps_given comps =
     match comps with
     | Some cs => Forall (fun oc => match oc with Some c => comp_ok c | None => False end) cs
     | None => False
     end) /\
  op_effectless o = match o with OCondense _ _ _ => True | _ => op_record_only o end /\
  call_ok o e = (e = None \/ op_effectless o).
Proof. exact run_classes_spec. Qed.
Print Assumptions C05_run_classes.

(** the wider class (N2a): [op_comps_ok o] ([C05_op_classes]: every composition that IS given is a
    dict of fractions, missing ones allowed) together with
      [well_clean L i]   the tracked well is not an emptied well with left-over fractions
      [plain_clean]      every well an [add] addresses without a composition is clean
      [op_clean s o]     ... for the call [o] in the state [s] it starts from
      [run_clean s ops]  ... for every call of a program, in the state the model has reached *)
Theorem C05_clean_classes :
  (forall L i, well_clean L i = (~ vol_at L i == 0 \/ forall x, frac L x i == 0)) /\
  (forall L wells comps, plain_clean L wells comps =
     Forall (fun wc => snd wc = None -> forall i, lw_index L (fst wc) = Some i -> well_clean L i)
            (zip (flattenF wells) (comps_list comps (length (flattenF wells))))) /\
  (forall s o, op_clean s o =
     match o with
     | OAdd k ws _ _ cs => forall L, nth_error (st_lw s) k = Some L -> plain_clean L ws cs
     | ODispense k ws _ _ cs _ => forall L, nth_error (st_lw s) k = Some L -> plain_clean L ws cs
     | OEvoDisp k a _ cs => forall L, nth_error (st_lw s) k = Some L -> plain_clean L (c_wells a) cs
     | _ => True
     end) /\
  (forall s, run_clean s [] = True) /\
  (forall s o r, run_clean s (o :: r) = (op_clean s o /\ run_clean (fst (step s o)) r)).
Proof. exact clean_spec. Qed.
Print Assumptions C05_clean_classes.

(** [op_mix] is the special case in which nothing has to be checked *)
Theorem C05_mix_is_clean :
  (forall s o, op_mix o -> op_comps_ok o /\ op_clean s o) /\
  (forall ops, Forall op_mix ops -> Forall op_comps_ok ops /\ forall s, run_clean s ops).
Proof. exact mix_clean_spec. Qed.
Print Assumptions C05_mix_is_clean.

(** [run_clean] is decidable *)
Theorem C05_clean_check : forall ops s, run_cleanb s ops = true -> run_clean s ops.
Proof. exact run_cleanb_ok. Qed.
Print Assumptions C05_clean_check.

(* ------------------------------------------------------------------ (a) transfer, with its plan named *)

(** the plan is computed from the arguments alone: the triples of the call, auto_split_tips and
    max_volume of the worklist, and the partitioning mode [optimize_partition_by] chooses *)
Theorem C05_refines_transfer_plan : forall s ks swells kd dwells vols label ws pb kw s' Ls Ld,
  st_inv s -> nth_error (st_lw s) ks = Some Ls -> nth_error (st_lw s) kd = Some Ld ->
  transfer s ks swells kd dwells vols label ws pb kw = (s', None) ->
  exists mode, optimize_partition_by (is_trough (lw_geom Ls)) (is_trough (lw_geom Ld)) pb = Ok mode /\
    forall k i, iw_eq (abs_state s' k i) (is_exec (abs_state s) ks kd Ls Ld
       (plan (w_autosplit (st_wl s)) (w_max (st_wl s)) mode (transfer_triples swells dwells vols)) k i).
Proof. exact transfer_refines_plan. Qed.
Print Assumptions C05_refines_transfer_plan.

(* ------------------------------------------------------------------ (b) distribute *)

(** an accepted distribution of a positive volume is the ideal execution of one pipetting step
    source column -> destination well per addressed well, in the order given; destinations may
    repeat, lie in the source labware, be the source well itself, or be one trough well addressed
    through several virtual rows *)
Theorem C05_refines_distribute : forall s ks kd dwells a s' Ls Ld v, st_inv s ->
  nth_error (st_lw s) ks = Some Ls -> nth_error (st_lw s) kd = Some Ld ->
  rvol_x (d_volume a) = Some (XQ v) -> 0 < v -> distribute s ks kd dwells a = (s', None) ->
  forall k i, iw_eq (abs_state s' k i) (is_exec (abs_state s) ks kd Ls Ld
     (map (fun w => Step (well_id 0 (Z.to_nat (d_source_column a))) w v) (flattenF dwells)) k i).
Proof. exact distribute_refines. Qed.
Print Assumptions C05_refines_distribute.

(** the volume of an accepted distribution is a number that is not negative (infinite, NaN and
    negative volumes are refused) ... *)
Theorem C05_distribute_volume : forall s ks kd dwells a s', distribute s ks kd dwells a = (s', None) ->
  exists v, rvol_x (d_volume a) = Some (XQ v) /\ 0 <= v.
Proof. exact distribute_volume. Qed.
Print Assumptions C05_distribute_volume.

(** ... and volume zero is accepted: the model mixes a zero volume into every destination, which
    changes no volume and no amount (the ideal step would divide by the volume of a possibly
    empty source, so this case is stated apart) *)
Theorem C05_refines_distribute_zero : forall s ks kd dwells a s' v, st_inv s ->
  rvol_x (d_volume a) = Some (XQ v) -> v == 0 -> distribute s ks kd dwells a = (s', None) ->
  forall k i, iw_eq (abs_state s' k i) (abs_state s k i).
Proof. exact distribute_refines_zero. Qed.
Print Assumptions C05_refines_distribute_zero.

(** the order the model itself works in, for any accepted volume: [n * v] leave the source column
    at once, then each destination receives [v] of a liquid with the source's fractions
    ([well_composition_at Ls i_s], what [get_well_composition] reads, see C05_source_composition) *)
Theorem C05_refines_distribute_bulk : forall s ks kd dwells a s' Ls Ld, st_inv s ->
  nth_error (st_lw s) ks = Some Ls -> nth_error (st_lw s) kd = Some Ld ->
  distribute s ks kd dwells a = (s', None) ->
  exists v i_s,
    rvol_x (d_volume a) = Some (XQ v) /\ 0 <= v /\
    lw_index Ls (well_id 0 (Z.to_nat (d_source_column a))) = Some i_s /\
    Forall (fun w => lw_index Ld w <> None) (flattenF dwells) /\ flattenF dwells <> [] /\
    Qn (length (flattenF dwells)) * v <= vol_at Ls i_s /\
    let X := vol_at Ls i_s - Qn (length (flattenF dwells)) * v in
    forall k i, iw_eq (abs_state s' k i)
      (is_add (is_upd (abs_state s) ks i_s
                 {| iw_vol := X; iw_amt := fun x => X * cget x (well_composition_at Ls i_s) |})
              kd Ld (map (fun w => (w, v, well_composition_at Ls i_s)) (flattenF dwells)) k i).
Proof. exact distribute_refines_bulk. Qed.
Print Assumptions C05_refines_distribute_bulk.

(** what [get_well_composition] reads from a well is its fractions *)
Theorem C05_source_composition : forall L i, mix_inv L ->
  forall x, cget x (well_composition_at L i) == frac L x i.
Proof. exact source_comp_frac. Qed.
Print Assumptions C05_source_composition.

(** a fact about the specification alone: taking [n * v] at once and then adding [v] of the
    source's liquid per destination is the same as [n] successive ideal pipetting steps *)
Theorem C05_ideal_distribute : forall ks kd Ls Ld sw i_s v c, lw_index Ls sw = Some i_s -> 0 < v ->
  forall dws (W : istate) X,
   Forall (fun w => lw_index Ld w <> None) dws ->
   iw_eq (W ks i_s) {| iw_vol := X; iw_amt := fun x => X * cget x c |} ->
   Qn (length dws) * v <= X ->
   forall k i, iw_eq
     (is_exec W ks kd Ls Ld (map (fun w => Step sw w v) dws) k i)
     (is_add (is_upd W ks i_s {| iw_vol := X - Qn (length dws) * v;
                                  iw_amt := fun x => (X - Qn (length dws) * v) * cget x c |})
             kd Ld (map (fun w => (w, v, c)) dws) k i).
Proof. exact dist_ideal. Qed.
Print Assumptions C05_ideal_distribute.

(* ------------------------------------------------------------------ (c) add / dispense with given compositions *)

(** the whole call: every volume is a non-negative number, there is one composition per addressed
    well, and every occurrence of a well is one ideal addition, in call order *)
Theorem C05_refines_dispense : forall s k wells vols label cs kw s' L, st_inv s -> Forall comp_ok cs ->
  nth_error (st_lw s) k = Some L ->
  dispense s k wells vols label (Some (map Some cs)) kw = (s', None) ->
  exists vs, broadcast (flattenF vols) (length (flattenF wells)) = map XQ vs /\
    Forall (fun v => 0 <= v) vs /\ length vs = length (flattenF wells) /\
    length cs = length (flattenF wells) /\
    forall k' i, iw_eq (abs_state s' k' i)
                       (is_add (abs_state s) k L (zip (zip (flattenF wells) vs) cs) k' i).
Proof. exact dispense_refines. Qed.
Print Assumptions C05_refines_dispense.

(** [add] called directly on labware [k] of a program state *)
Theorem C05_refines_add : forall s k wells vols label cs s' L, st_inv s -> Forall comp_ok cs ->
  nth_error (st_lw s) k = Some L ->
  step s (OAdd k wells vols label (Some (map Some cs))) = (s', None) ->
  exists vs, broadcast (flattenF vols) (length (flattenF wells)) = map XQ vs /\
    Forall (fun v => 0 <= v) vs /\ length vs = length (flattenF wells) /\
    length cs = length (flattenF wells) /\
    forall k' i, iw_eq (abs_state s' k' i)
                       (is_add (abs_state s) k L (zip (zip (flattenF wells) vs) cs) k' i).
Proof. exact step_add_refines. Qed.
Print Assumptions C05_refines_add.

(** removals: every occurrence of a well is one ideal removal, every amount of the well shrinks
    by the same factor (in an empty well, where only volume 0 can be removed, the amounts are 0
    and the factor is immaterial) *)
Theorem C05_refines_aspirate : forall s k wells vols label kw s' L, st_inv s ->
  nth_error (st_lw s) k = Some L -> aspirate s k wells vols label kw = (s', None) ->
  exists vs, broadcast (flattenF vols) (length (flattenF wells)) = map XQ vs /\
    Forall (fun v => 0 <= v) vs /\ length vs = length (flattenF wells) /\
    forall k' i, iw_eq (abs_state s' k' i) (is_rem (abs_state s) k L (zip (flattenF wells) vs) k' i).
Proof. exact aspirate_refines. Qed.
Print Assumptions C05_refines_aspirate.

Theorem C05_refines_remove : forall s k wells vols label s' L, st_inv s ->
  nth_error (st_lw s) k = Some L -> step s (ORemove k wells vols label) = (s', None) ->
  exists vs, broadcast (flattenF vols) (length (flattenF wells)) = map XQ vs /\
    Forall (fun v => 0 <= v) vs /\ length vs = length (flattenF wells) /\
    forall k' i, iw_eq (abs_state s' k' i) (is_rem (abs_state s) k L (zip (flattenF wells) vs) k' i).
Proof. exact step_remove_refines. Qed.
Print Assumptions C05_refines_remove.

(* ------------------------------------------------------------------ (d) whole programs *)

(** no call, accepted or rejected, changes the geometry of a labware, [max_volume] or
    [auto_split_tips]: the parameters of the ideal semantics are those of the initial state *)
Theorem C05_frame : forall s o,
  map lw_geom (st_lw (fst (step s o))) = map lw_geom (st_lw s) /\
  w_max (st_wl (fst (step s o))) = w_max (st_wl s) /\
  w_autosplit (st_wl (fst (step s o))) = w_autosplit (st_wl s).
Proof. exact frame_step. Qed.
Print Assumptions C05_frame.

(** the ideal meaning of a call respects equality of ideal states *)
Theorem C05_ideal_congruence : forall auto m lws ops F, is_run auto m lws ops = Some F ->
  forall W W', (forall k i, iw_eq (W k i) (W' k i)) -> forall k i, iw_eq (F W k i) (F W' k i).
Proof. exact is_run_congr. Qed.
Print Assumptions C05_ideal_congruence.

(** one call, in a state [s] reached from [s0] (same geometries, same worklist parameters) *)
Theorem C05_step_refines : forall s0 s o, st_inv s ->
  map lw_geom (st_lw s) = map lw_geom (st_lw s0) /\
  w_max (st_wl s) = w_max (st_wl s0) /\ w_autosplit (st_wl s) = w_autosplit (st_wl s0) ->
  op_mix o -> call_ok o (snd (step s o)) ->
  exists f, is_op (w_autosplit (st_wl s0)) (w_max (st_wl s0)) (st_lw s0) o = Some f /\
    forall k i, iw_eq (abs_state (fst (step s o)) k i) (f (abs_state s) k i).
Proof. exact step_refines. Qed.
Print Assumptions C05_step_refines.

(** THE RUN-LEVEL STATEMENT: for a program of transfers, distributions, additions / dispenses with
    given compositions, removals / aspirations (also the EVOware commands), [condense_log] and
    record-only calls whose liquid-moving calls were all accepted, every call has an ideal
    meaning and the final tracked state is the fold of these meanings over the initial state.
    [op_mix] EXCLUDES the plain calls [dispense(labware, wells, volumes)] / [add(wells, volumes)]
    without [compositions] (and lists with [None] entries): for programs containing them see
    [C05_run_refines_unknown] below, which needs the extra hypothesis [run_clean]. *)
Theorem C05_run_refines : forall ops s, st_inv s -> Forall op_mix ops ->
  Forall2 call_ok ops (snd (run s ops)) ->
  exists F, is_run (w_autosplit (st_wl s)) (w_max (st_wl s)) (st_lw s) ops = Some F /\
    forall k i, iw_eq (abs_state (fst (run s ops)) k i) (F (abs_state s) k i).
Proof. exact run_refines. Qed.
Print Assumptions C05_run_refines.

Theorem C05_run_refines_accepted : forall ops s, st_inv s -> Forall op_mix ops ->
  Forall (fun e => e = None) (snd (run s ops)) ->
  exists F, is_run (w_autosplit (st_wl s)) (w_max (st_wl s)) (st_lw s) ops = Some F /\
    forall k i, iw_eq (abs_state (fst (run s ops)) k i) (F (abs_state s) k i).
Proof. exact run_refines_accepted. Qed.
Print Assumptions C05_run_refines_accepted.

(** the state after any prefix whose calls were accepted, whatever happens later *)
Theorem C05_run_refines_prefix : forall ops s n, st_inv s -> Forall op_mix ops ->
  Forall2 call_ok (firstn n ops) (firstn n (snd (run s ops))) ->
  exists F, is_run (w_autosplit (st_wl s)) (w_max (st_wl s)) (st_lw s) (firstn n ops) = Some F /\
    forall k i, iw_eq (abs_state (fst (run s (firstn n ops))) k i) (F (abs_state s) k i).
Proof. exact run_refines_prefix. Qed.
Print Assumptions C05_run_refines_prefix.

(** from labware as the constructors make it (cf. C05_run_from_constructors) *)
Theorem C05_run_refines_constructed : forall lws w ops,
  Forall (fun L => (exists a, mk_labware a = Ok L) \/ (exists a, mk_trough a = Ok L)) lws ->
  Forall op_mix ops ->
  Forall2 call_ok ops (snd (run {| st_lw := lws; st_wl := w |} ops)) ->
  exists F, is_run (w_autosplit w) (w_max w) lws ops = Some F /\
    forall k i, iw_eq (abs_state (fst (run {| st_lw := lws; st_wl := w |} ops)) k i)
                      (F (abs_state {| st_lw := lws; st_wl := w |}) k i).
Proof. exact run_refines_constructed. Qed.
Print Assumptions C05_run_refines_constructed.

(** after a rejected call the program goes on from whatever that call left behind
    ([C05_step_rejected] says what that is): the fold restarts in the state after [ops1] *)
Theorem C05_run_refines_restart : forall ops1 ops2 s, st_inv s -> Forall op_mix ops1 -> Forall op_mix ops2 ->
  let s1 := fst (run s ops1) in
  Forall2 call_ok ops2 (snd (run s1 ops2)) ->
  exists F, is_run (w_autosplit (st_wl s)) (w_max (st_wl s)) (st_lw s) ops2 = Some F /\
    forall k i, iw_eq (abs_state (fst (run s (ops1 ++ ops2))) k i) (F (abs_state s1) k i).
Proof. exact run_refines_restart. Qed.
Print Assumptions C05_run_refines_restart.

(** the same with hypotheses that evaluate: the labware set is built by the constructors
    ([build_all]), [op_mixb] decides [op_mix], all outcomes are [None] *)
Theorem C05_build_all :
  build_all [] = Some [] /\
  forall c r, build_all (c :: r) =
    match (match c with CPlate a => mk_labware a | CTrough a => mk_trough a end), build_all r with
    | Ok L, Some ls => Some (L :: ls)
    | _, _ => None
    end.
Proof. exact build_all_spec. Qed.
Print Assumptions C05_build_all.

Theorem C05_mix_check : forall ops, forallb op_mixb ops = true -> Forall op_mix ops.
Proof. exact ops_mix_check. Qed.
Print Assumptions C05_mix_check.

Theorem C05_is_none : forall e : option err, is_none e = match e with None => true | Some _ => false end.
Proof. exact is_none_spec. Qed.
Print Assumptions C05_is_none.

Theorem C05_run_refines_built : forall cs lws w ops, build_all cs = Some lws ->
  forallb op_mixb ops = true ->
  forallb is_none (snd (run {| st_lw := lws; st_wl := w |} ops)) = true ->
  exists F, is_run (w_autosplit w) (w_max w) lws ops = Some F /\
    forall k i, iw_eq (abs_state (fst (run {| st_lw := lws; st_wl := w |} ops)) k i)
                      (F (abs_state {| st_lw := lws; st_wl := w |}) k i).
Proof. exact run_refines_built. Qed.
Print Assumptions C05_run_refines_built.

(* ------------------------------------------------------------------ (d') whole programs, compositions may be
   missing (REVIEW2 N2a; see the header of this section).  Same conclusions as the theorems above,
   for the class [op_comps_ok] (every composition that IS given is a dict of fractions) instead of
   [op_mix], under the additional hypothesis [run_clean] ([C05_clean_classes]); a call without a
   composition means [iw_dilute], "more of what is there", on every well it addresses. *)

(** one call *)
Theorem C05_step_refines_unknown : forall s0 s o, st_inv s ->
  map lw_geom (st_lw s) = map lw_geom (st_lw s0) /\
  w_max (st_wl s) = w_max (st_wl s0) /\ w_autosplit (st_wl s) = w_autosplit (st_wl s0) ->
  op_comps_ok o -> op_clean s o -> call_ok o (snd (step s o)) ->
  exists f, is_op (w_autosplit (st_wl s0)) (w_max (st_wl s0)) (st_lw s0) o = Some f /\
    forall k i, iw_eq (abs_state (fst (step s o)) k i) (f (abs_state s) k i).
Proof. exact step_refines_unknown. Qed.
Print Assumptions C05_step_refines_unknown.

(** THE RUN-LEVEL STATEMENT for programs that also contain the plain calls [dispense(labware, wells,
    volumes)] / [add(wells, volumes)] *)
Theorem C05_run_refines_unknown : forall ops s, st_inv s -> Forall op_comps_ok ops -> run_clean s ops ->
  Forall2 call_ok ops (snd (run s ops)) ->
  exists F, is_run (w_autosplit (st_wl s)) (w_max (st_wl s)) (st_lw s) ops = Some F /\
    forall k i, iw_eq (abs_state (fst (run s ops)) k i) (F (abs_state s) k i).
Proof. exact run_refines_unknown. Qed.
Print Assumptions C05_run_refines_unknown.

Theorem C05_run_refines_accepted_unknown : forall ops s, st_inv s -> Forall op_comps_ok ops ->
  run_clean s ops -> Forall (fun e => e = None) (snd (run s ops)) ->
  exists F, is_run (w_autosplit (st_wl s)) (w_max (st_wl s)) (st_lw s) ops = Some F /\
    forall k i, iw_eq (abs_state (fst (run s ops)) k i) (F (abs_state s) k i).
Proof. exact run_refines_accepted_unknown. Qed.
Print Assumptions C05_run_refines_accepted_unknown.

Theorem C05_run_refines_prefix_unknown : forall ops s n, st_inv s -> Forall op_comps_ok ops ->
  run_clean s (firstn n ops) ->
  Forall2 call_ok (firstn n ops) (firstn n (snd (run s ops))) ->
  exists F, is_run (w_autosplit (st_wl s)) (w_max (st_wl s)) (st_lw s) (firstn n ops) = Some F /\
    forall k i, iw_eq (abs_state (fst (run s (firstn n ops))) k i) (F (abs_state s) k i).
Proof. exact run_refines_prefix_unknown. Qed.
Print Assumptions C05_run_refines_prefix_unknown.

Theorem C05_run_refines_constructed_unknown : forall lws w ops,
  Forall (fun L => (exists a, mk_labware a = Ok L) \/ (exists a, mk_trough a = Ok L)) lws ->
  Forall op_comps_ok ops -> run_clean {| st_lw := lws; st_wl := w |} ops ->
  Forall2 call_ok ops (snd (run {| st_lw := lws; st_wl := w |} ops)) ->
  exists F, is_run (w_autosplit w) (w_max w) lws ops = Some F /\
    forall k i, iw_eq (abs_state (fst (run {| st_lw := lws; st_wl := w |} ops)) k i)
                      (F (abs_state {| st_lw := lws; st_wl := w |}) k i).
Proof. exact run_refines_constructed_unknown. Qed.
Print Assumptions C05_run_refines_constructed_unknown.

(** restart after a rejected call: of the calls of [ops1] only the invariant is needed *)
Theorem C05_run_refines_restart_unknown : forall ops1 ops2 s, st_inv s ->
  Forall op_comps_ok ops1 -> Forall op_comps_ok ops2 ->
  let s1 := fst (run s ops1) in
  run_clean s1 ops2 -> Forall2 call_ok ops2 (snd (run s1 ops2)) ->
  exists F, is_run (w_autosplit (st_wl s)) (w_max (st_wl s)) (st_lw s) ops2 = Some F /\
    forall k i, iw_eq (abs_state (fst (run s (ops1 ++ ops2))) k i) (F (abs_state s1) k i).
Proof. exact run_refines_restart_unknown. Qed.
Print Assumptions C05_run_refines_restart_unknown.

(** with hypotheses that evaluate ([op_comps_okb]: C05_comps_check; [run_cleanb]: C05_clean_check) *)
Theorem C05_run_refines_built_unknown : forall cs lws w ops, build_all cs = Some lws ->
  forallb op_comps_okb ops = true ->
  run_cleanb {| st_lw := lws; st_wl := w |} ops = true ->
  forallb is_none (snd (run {| st_lw := lws; st_wl := w |} ops)) = true ->
  exists F, is_run (w_autosplit w) (w_max w) lws ops = Some F /\
    forall k i, iw_eq (abs_state (fst (run {| st_lw := lws; st_wl := w |} ops)) k i)
                      (F (abs_state {| st_lw := lws; st_wl := w |}) k i).
Proof. exact run_refines_built_unknown. Qed.
Print Assumptions C05_run_refines_built_unknown.

(** [run_clean] cannot be dropped.  The statement
      forall ops s, st_inv s -> Forall op_comps_ok ops -> Forall (fun e => e = None) (snd (run s ops)) ->
        exists F, is_run ... ops = Some F /\ forall k i, iw_eq (abs_state (fst (run s ops)) k i) (F (abs_state s) k i)
    is false.  Plate with 200 of "stock" in A01 (min_volume 0): aspirate the 200, then dispense 30
    without a composition into A01.  Both calls are accepted and have an ideal meaning, the program
    is not [run_clean]; the model (and the library) report 30 of "stock" in A01, the reference
    knows nothing about the 30.  [C05_run_refines_unknown] is the partial statement. *)
Theorem C05_run_refines_unknown_refuted :
  exists s ops F, st_inv s /\ Forall op_comps_ok ops /\ snd (run s ops) = [None; None] /\
    is_run (w_autosplit (st_wl s)) (w_max (st_wl s)) (st_lw s) ops = Some F /\
    run_cleanb s ops = false /\
    iw_vol (abs_state (fst (run s ops)) 0%nat 0%nat) == 30 /\ iw_vol (F (abs_state s) 0%nat 0%nat) == 30 /\
    iw_amt (abs_state (fst (run s ops)) 0%nat 0%nat) "stock"%string == 30 /\
    iw_amt (F (abs_state s) 0%nat 0%nat) "stock"%string == 0.
Proof. exact run_refines_unknown_needs_clean. Qed.
Print Assumptions C05_run_refines_unknown_refuted.

(* ------------------------------------------------------------------ rejected calls *)

(** A rejected call keeps the effects it had before the failure (as the library does), so the
    fold of C05_run_refines does not describe it.  What it can leave behind: *)

(** ... a pipetting step [sw -> dw] of volume [v]: nothing, or the aspirated liquid missing from
    the source (taken, never dispensed), or the whole ideal step (the failure came afterwards) *)
Theorem C05_partial_step : forall W ks kd Ls Ld sw dw v W',
  is_partial_step W ks kd Ls Ld sw dw v W' =
  ((forall k i, iw_eq (W' k i) (W k i)) \/
   exists i_s, lw_index Ls sw = Some i_s /\
     ((forall k i, iw_eq (W' k i) (is_upd W ks i_s (iw_remove (W ks i_s) v) k i)) \/
      exists i_d, lw_index Ld dw = Some i_d /\
        forall k i, iw_eq (W' k i) (is_transfer W ks i_s kd i_d v k i))).
Proof. exact is_partial_step_spec. Qed.
Print Assumptions C05_partial_step.

(** ... a [transfer]: nothing, or the ideal execution of the steps of its plan before the failing
    one, plus a part of that step *)
Theorem C05_rejected_transfer : forall s ks swells kd dwells vols label ws pb kw, st_inv s ->
  snd (transfer s ks swells kd dwells vols label ws pb kw) <> None ->
  (forall k i, iw_eq (abs_state (fst (transfer s ks swells kd dwells vols label ws pb kw)) k i)
                     (abs_state s k i)) \/
  exists Ls Ld mode done sw dw v rest,
    nth_error (st_lw s) ks = Some Ls /\ nth_error (st_lw s) kd = Some Ld /\
    optimize_partition_by (is_trough (lw_geom Ls)) (is_trough (lw_geom Ld)) pb = Ok mode /\
    plan (w_autosplit (st_wl s)) (w_max (st_wl s)) mode (transfer_triples swells dwells vols)
      = (done ++ Step sw dw v :: rest)%list /\
    is_partial_step (is_exec (abs_state s) ks kd Ls Ld done) ks kd Ls Ld sw dw v
      (abs_state (fst (transfer s ks swells kd dwells vols label ws pb kw))).
Proof. exact transfer_any. Qed.
Print Assumptions C05_rejected_transfer.

(** ... a [distribute] (stated for any outcome; [j] is the number of wells for an accepted call):
    nothing, or [n * v] have left the source column at once and the first [j] destination wells
    have received [v] each *)
Theorem C05_rejected_distribute : forall s ks kd dwells a, st_inv s ->
  (forall k i, iw_eq (abs_state (fst (distribute s ks kd dwells a)) k i) (abs_state s k i)) \/
  exists Ls Ld v i_s j,
    nth_error (st_lw s) ks = Some Ls /\ nth_error (st_lw s) kd = Some Ld /\
    rvol_x (d_volume a) = Some (XQ v) /\ 0 <= v /\
    lw_index Ls (well_id 0 (Z.to_nat (d_source_column a))) = Some i_s /\
    (j <= length (flattenF dwells))%nat /\
    (snd (distribute s ks kd dwells a) = None -> j = length (flattenF dwells)) /\
    Qn (length (flattenF dwells)) * v <= vol_at Ls i_s /\
    let X := vol_at Ls i_s - Qn (length (flattenF dwells)) * v in
    forall k i, iw_eq (abs_state (fst (distribute s ks kd dwells a)) k i)
      (is_add (is_upd (abs_state s) ks i_s
                 {| iw_vol := X; iw_amt := fun x => X * cget x (well_composition_at Ls i_s) |})
              kd Ld (map (fun w => (w, v, well_composition_at Ls i_s)) (firstn j (flattenF dwells))) k i).
Proof. exact distribute_any. Qed.
Print Assumptions C05_rejected_distribute.

(** ... an addition / a removal: the ideal additions (removals) of the items before the first
    refused one - possibly none, possibly all, when the failure came after the tracking
    ([is_addo]: an item without composition is one [iw_dilute]; with every composition given
    [is_addo] is [is_add], C05_ideal_lists) *)
Theorem C05_partial_items : forall lws k wells vols comps W W',
  partial_add lws k wells vols comps W W' =
    ((forall k' i, iw_eq (W' k' i) (W k' i)) \/
     exists L vq rest, nth_error lws k = Some L /\
       broadcast (flattenF vols) (length (flattenF wells)) = (map XQ vq ++ rest)%list /\
       Forall (fun v => 0 <= v) vq /\
       forall k' i, iw_eq (W' k' i)
         (is_addo W k L (zip (zip (flattenF wells) vq) (comps_list comps (length (flattenF wells)))) k' i)) /\
  partial_rem lws k wells vols W W' =
    ((forall k' i, iw_eq (W' k' i) (W k' i)) \/
     exists L vq rest, nth_error lws k = Some L /\
       broadcast (flattenF vols) (length (flattenF wells)) = (map XQ vq ++ rest)%list /\
       Forall (fun v => 0 <= v) vq /\
       forall k' i, iw_eq (W' k' i) (is_rem W k L (zip (flattenF wells) vq) k' i)).
Proof. exact partial_spec. Qed.
Print Assumptions C05_partial_items.

(** ... any call of a program *)
Theorem C05_partial : forall auto m lws o W W',
  is_partial auto m lws o W W' =
  match o with
  | OAdd k ws vs _ cs => partial_add lws k ws vs cs W W'
  | ODispense k ws vs _ cs _ => partial_add lws k ws vs cs W W'
  | OEvoDisp k a _ cs => partial_add lws k (c_wells a) (evo_vols (c_volume a)) cs W W'
  | ORemove k ws vs _ => partial_rem lws k ws vs W W'
  | OAspirate k ws vs _ _ => partial_rem lws k ws vs W W'
  | OEvoAsp k a _ => partial_rem lws k (c_wells a) (evo_vols (c_volume a)) W W'
  | OTransfer ks sw kd dw vs _ _ pb _ =>
      (forall k i, iw_eq (W' k i) (W k i)) \/
      exists Ls Ld mode done s d v rest,
        nth_error lws ks = Some Ls /\ nth_error lws kd = Some Ld /\
        optimize_partition_by (is_trough (lw_geom Ls)) (is_trough (lw_geom Ld)) pb = Ok mode /\
        plan auto m mode (transfer_triples sw dw vs) = (done ++ Step s d v :: rest)%list /\
        is_partial_step (is_exec W ks kd Ls Ld done) ks kd Ls Ld s d v W'
  | ODistribute ks kd dw a =>
      (forall k i, iw_eq (W' k i) (W k i)) \/
      exists Ls Ld v i_s j c X,
        nth_error lws ks = Some Ls /\ nth_error lws kd = Some Ld /\
        rvol_x (d_volume a) = Some (XQ v) /\ 0 <= v /\
        lw_index Ls (well_id 0 (Z.to_nat (d_source_column a))) = Some i_s /\
        (j <= length (flattenF dw))%nat /\
        iw_eq (W ks i_s) {| iw_vol := X; iw_amt := fun x => X * cget x c |} /\
        Qn (length (flattenF dw)) * v <= X /\
        forall k i, iw_eq (W' k i)
          (is_add (is_upd W ks i_s
                     {| iw_vol := X - Qn (length (flattenF dw)) * v;
                        iw_amt := fun x => (X - Qn (length (flattenF dw)) * v) * cget x c |})
                  kd Ld (map (fun w => (w, v, c)) (firstn j (flattenF dw))) k i)
  | _ => forall k i, iw_eq (W' k i) (W k i)
  end.
Proof. exact is_partial_spec. Qed.
Print Assumptions C05_partial.

Theorem C05_step_rejected : forall s0 s o, st_inv s ->
  map lw_geom (st_lw s) = map lw_geom (st_lw s0) /\
  w_max (st_wl s) = w_max (st_wl s0) /\ w_autosplit (st_wl s) = w_autosplit (st_wl s0) ->
  op_mix o -> snd (step s o) <> None ->
  is_partial (w_autosplit (st_wl s0)) (w_max (st_wl s0)) (st_lw s0) o
             (abs_state s) (abs_state (fst (step s o))).
Proof. exact step_partial. Qed.
Print Assumptions C05_step_rejected.

(** [ideal_run auto m lws ops es W W']: along the program [ops] with outcomes [es], every accepted
    call acts as its ideal meaning and every rejected call leaves one of the states [is_partial]
    allows *)
Theorem C05_ideal_run_relation : forall auto m lws ops es W W',
  ideal_run auto m lws ops es W W' <->
  match ops, es with
  | [], [] => forall k i, iw_eq (W' k i) (W k i)
  | o :: r, None :: es' =>
      exists f W1, is_op auto m lws o = Some f /\ (forall k i, iw_eq (W1 k i) (f W k i)) /\
                   ideal_run auto m lws r es' W1 W'
  | o :: r, Some _ :: es' =>
      exists W1, is_partial auto m lws o W W1 /\ ideal_run auto m lws r es' W1 W'
  | _, _ => False
  end.
Proof. exact ideal_run_spec. Qed.
Print Assumptions C05_ideal_run_relation.

(** THE RUN-LEVEL STATEMENT FOR ARBITRARY OUTCOMES: whatever is accepted and whatever is rejected *)
Theorem C05_run_refines_any : forall ops s, st_inv s -> Forall op_mix ops ->
  ideal_run (w_autosplit (st_wl s)) (w_max (st_wl s)) (st_lw s) ops (snd (run s ops))
            (abs_state s) (abs_state (fst (run s ops))).
Proof. exact run_refines_any. Qed.
Print Assumptions C05_run_refines_any.

(** when every call was accepted the relation is the fold *)
Theorem C05_ideal_run_accepted : forall auto m lws ops es W W', ideal_run auto m lws ops es W W' ->
  Forall (fun e => e = None) es ->
  exists F, is_run auto m lws ops = Some F /\ forall k i, iw_eq (W' k i) (F W k i).
Proof. exact ideal_run_accepted. Qed.
Print Assumptions C05_ideal_run_accepted.

Theorem C05_run_any_built : forall cs lws w ops, build_all cs = Some lws -> forallb op_mixb ops = true ->
  ideal_run (w_autosplit w) (w_max w) lws ops (snd (run {| st_lw := lws; st_wl := w |} ops))
            (abs_state {| st_lw := lws; st_wl := w |})
            (abs_state (fst (run {| st_lw := lws; st_wl := w |} ops))).
Proof. exact run_any_built. Qed.
Print Assumptions C05_run_any_built.

(** the same three statements when compositions may be missing ([partial_add] / [is_partial] speak
    about [is_addo]; a rejected composition-less addition leaves the [iw_dilute]s of the items before
    the refused one) *)
Theorem C05_step_rejected_unknown : forall s0 s o, st_inv s ->
  map lw_geom (st_lw s) = map lw_geom (st_lw s0) /\
  w_max (st_wl s) = w_max (st_wl s0) /\ w_autosplit (st_wl s) = w_autosplit (st_wl s0) ->
  op_comps_ok o -> op_clean s o -> snd (step s o) <> None ->
  is_partial (w_autosplit (st_wl s0)) (w_max (st_wl s0)) (st_lw s0) o
             (abs_state s) (abs_state (fst (step s o))).
Proof. exact step_partial_unknown. Qed.
Print Assumptions C05_step_rejected_unknown.

Theorem C05_run_refines_any_unknown : forall ops s, st_inv s -> Forall op_comps_ok ops -> run_clean s ops ->
  ideal_run (w_autosplit (st_wl s)) (w_max (st_wl s)) (st_lw s) ops (snd (run s ops))
            (abs_state s) (abs_state (fst (run s ops))).
Proof. exact run_refines_any_unknown. Qed.
Print Assumptions C05_run_refines_any_unknown.

Theorem C05_run_any_built_unknown : forall cs lws w ops, build_all cs = Some lws ->
  forallb op_comps_okb ops = true -> run_cleanb {| st_lw := lws; st_wl := w |} ops = true ->
  ideal_run (w_autosplit w) (w_max w) lws ops (snd (run {| st_lw := lws; st_wl := w |} ops))
            (abs_state {| st_lw := lws; st_wl := w |})
            (abs_state (fst (run {| st_lw := lws; st_wl := w |} ops))).
Proof. exact run_any_built_unknown. Qed.
Print Assumptions C05_run_any_built_unknown.

(* ------------------------------------------------------------------ examples *)

#[local] Open Scope string_scope.

(** volume and amounts of the named components in some wells of labware [k] of an ideal state *)
Definition show (W : istate) (k : nat) (wells : list nat) (names : list string) : list (Q * list Q) :=
  map (fun i => (Qred (iw_vol (W k i)), map (fun x => Qred (iw_amt (W k i) x)) names)) wells.

(** the serial dilution of [ex_run]: the plan named by C05_refines_transfer_plan, and its ideal
    execution computed in exact arithmetic, next to what the model tracks *)
Example C05_example_transfer_plan :
  match mk_labware ex_args with
  | Ok L =>
      let s := {| st_lw := [L]; st_wl := ex_w0 |} in
      let r := transfer s 0 (A1 ["A01"; "B01"; "C01"]) 0 (A1 ["B01"; "C01"; "D01"])
                        (A1 [50; 50; 50]) (Some "dilute") SFlush "auto" kw_default in
      let acts := plan true 950 BySource
                    (transfer_triples (A1 ["A01"; "B01"; "C01"]) (A1 ["B01"; "C01"; "D01"]) (A1 [50; 50; 50])) in
      snd r = None /\
      optimize_partition_by (is_trough (lw_geom L)) (is_trough (lw_geom L)) "auto" = Ok BySource /\
      acts = [Step "A01" "B01" 50; Step "B01" "C01" 50; Step "C01" "D01" 50] /\
      show (is_exec (abs_state s) 0 0 L L acts) 0 [0; 1; 2; 3]%nat ["stock"; "P.B01"; "P.C01"; "P.D01"]
      = [(150, [150; 0; 0; 0]); (50, [25; 25; 0; 0]); (50, [25 # 2; 25 # 2; 25; 0]);
         (100, [25 # 2; 25 # 2; 25; 50])] /\
      show (abs_state (fst r)) 0 [0; 1; 2; 3]%nat ["stock"; "P.B01"; "P.C01"; "P.D01"]
      = [(150, [150; 0; 0; 0]); (50, [25; 25; 0; 0]); (50, [25 # 2; 25 # 2; 25; 0]);
         (100, [25 # 2; 25 # 2; 25; 50])]
  | Err _ => False
  end.
Proof. vm_compute. repeat split. Qed.

Definition ex_ctors : list ctor := [CTrough ex_trough_args; CPlate ex_args].

(** a distribution of 25 from trough column 1 into column 2 through two virtual rows and into
    column 3 of the SAME trough: the hypotheses of C05_refines_distribute hold, and the three ideal
    pipetting steps give what the model tracks (column 2 receives 2 x 25) *)
Example C05_example_distribute_refines :
  match build_all ex_ctors with
  | Some [T; P] =>
      let s := {| st_lw := [T; P]; st_wl := ex_w0 |} in
      let r := distribute s 0 0 (A1 ["A02"; "C02"; "B03"]) ex_dist in
      snd r = None /\ rvol_x (d_volume ex_dist) = Some (XQ 25) /\ Qle_bool 25 0 = false /\
      map (lw_index T) ["A02"; "C02"; "B03"] = [Some 1; Some 1; Some 2]%nat /\
      show (is_exec (abs_state s) 0 0 T T
              (map (fun w => Step (well_id 0 (Z.to_nat (d_source_column ex_dist))) w 25)
                   (flattenF (A1 ["A02"; "C02"; "B03"])))) 0 [0; 1; 2]%nat ["T.column_01"; "water"]
      = [(425, [425; 0]); (50, [50; 0]); (125, [25; 100])] /\
      show (abs_state (fst r)) 0 [0; 1; 2]%nat ["T.column_01"; "water"]
      = [(425, [425; 0]); (50, [50; 0]); (125, [25; 100])]
  | _ => False
  end.
Proof. vm_compute. repeat split. Qed.

(** a distribution of volume zero is accepted and changes nothing (C05_refines_distribute_zero) *)
Definition ex_dist0 : distargs :=
  {| d_source_column := 2; d_volume := RVFloat (XQ 0); d_diti_reuse := 1; d_multi_disp := 1;
     d_liquid_class := PStr "Water"; d_label := None; d_direction := "left_to_right";
     d_src_id := PStr ""; d_src_type := PStr ""; d_dst_id := PStr ""; d_dst_type := PStr "" |}.

Example C05_example_distribute_zero :
  match build_all ex_ctors with
  | Some lws =>
      let s := {| st_lw := lws; st_wl := ex_w0 |} in
      let r := distribute s 0 1 (A1 ["A01"; "B01"]) ex_dist0 in
      snd r = None /\ rvol_x (d_volume ex_dist0) = Some (XQ 0) /\
      show (abs_state (fst r)) 1 [0; 1; 2; 3]%nat ["stock"; "P.B01"; "water"]
      = show (abs_state s) 1 [0; 1; 2; 3]%nat ["stock"; "P.B01"; "water"] /\
      map lw_vols (st_lw (fst r)) = map lw_vols lws
  | None => False
  end.
Proof. vm_compute. repeat split. Qed.

(** a program of eight calls on the trough T (labware 0) and the plate P (labware 1):
    a serial dilution; a transfer from a well into itself; a well emptied (A01 -> C01) and refilled
    by a dispense that addresses it twice; a distribution within the trough through two virtual
    rows; a dispense into trough wells addressed through different virtual rows (A03 and H03 are
    one well) with a zero volume; an aspirate through two virtual rows; a comment *)
Definition ex_prog2 : list op :=
  [ OTransfer 1 (A1 ["A01"; "B01"; "C01"]) 1 (A1 ["B01"; "C01"; "D01"]) (A1 [50; 50; 50])
              (Some "dilute") SFlush "auto" kw_default;
    OTransfer 1 (A0 "B01") 1 (A0 "B01") (A0 20) None SFlush "auto" kw_default;
    OTransfer 1 (A0 "A01") 1 (A0 "C01") (A0 150) None SFlush "auto" kw_default;
    ODispense 1 (A1 ["A01"; "A01"]) (A1 [XQ 30; XQ 10]) (Some "buffer")
              (Some [Some [("a", 1 # 4); ("b", 3 # 4)]; Some [("b", 1)]]) kw_default;
    ODistribute 0 0 (A1 ["A02"; "C02"]) ex_dist;
    ODispense 0 (A1 ["A03"; "H03"; "A01"]) (A1 [XQ 10; XQ 20; XQ 0]) None
              (Some [Some [("salt", 1)]; Some [("salt", 1 # 2); ("water", 1 # 2)]; Some [("x", 1)]])
              kw_default;
    OAspirate 0 (A1 ["B03"; "C03"]) (A0 (XQ 15)) None kw_default;
    OComment (Some "done") ].

(** the hypotheses of C05_run_refines_built evaluate to true ... *)
Example C05_example_run_hypotheses :
  match build_all ex_ctors with
  | Some lws =>
      forallb op_mixb ex_prog2 = true /\
      forallb is_none (snd (run {| st_lw := lws; st_wl := ex_w0 |} ex_prog2)) = true
  | None => False
  end.
Proof. vm_compute. split; reflexivity. Qed.

(** ... the program has an ideal meaning, and the fold gives, well by well and component by
    component, what the model tracks: A01 of the plate holds only the buffers (the 150 of stock
    that were there left no trace), column 3 of the trough holds 1100/13 of water *)
Example C05_example_run_refines :
  match build_all ex_ctors with
  | Some lws =>
      let s := {| st_lw := lws; st_wl := ex_w0 |} in
      match is_run true 950 lws ex_prog2 with
      | Some F =>
          show (F (abs_state s)) 1 [0; 1; 2; 3]%nat ["stock"; "P.B01"; "P.C01"; "P.D01"; "a"; "b"]
          = [(40, [0; 0; 0; 0; 15 # 2; 65 # 2]); (50, [25; 25; 0; 0; 0; 0]);
             (200, [325 # 2; 25 # 2; 25; 0; 0; 0]); (100, [25 # 2; 25 # 2; 25; 50; 0; 0])] /\
          show (abs_state (fst (run s ex_prog2))) 1 [0; 1; 2; 3]%nat
               ["stock"; "P.B01"; "P.C01"; "P.D01"; "a"; "b"]
          = [(40, [0; 0; 0; 0; 15 # 2; 65 # 2]); (50, [25; 25; 0; 0; 0; 0]);
             (200, [325 # 2; 25 # 2; 25; 0; 0; 0]); (100, [25 # 2; 25 # 2; 25; 50; 0; 0])] /\
          show (F (abs_state s)) 0 [0; 1; 2]%nat ["T.column_01"; "water"; "salt"; "x"]
          = [(450, [450; 0; 0; 0]); (50, [50; 0; 0; 0]); (100, [0; 1100 # 13; 200 # 13; 0])] /\
          show (abs_state (fst (run s ex_prog2))) 0 [0; 1; 2]%nat ["T.column_01"; "water"; "salt"; "x"]
          = [(450, [450; 0; 0; 0]); (50, [50; 0; 0; 0]); (100, [0; 1100 # 13; 200 # 13; 0])]
      | None => False
      end
  | None => False
  end.
Proof. vm_compute. repeat split. Qed.

(** rejected calls (C05_run_refines_any): plate Q, 200 of "stock" in A01, 50 in B01, at most 220
    per well.  The transfer's plan is [A01 -> B01 200; B01 -> A01 10]; its first step empties A01
    and then overflows B01: the call is rejected with the 200 taken and never dispensed.  The
    dispense adds 30 to A01, is refused at B01 (500 do not fit) and never reaches its third item.
    The aspirate is accepted.  The final state is the chain the theorem describes. *)
Definition ex_args_q : lw_args :=
  {| a_name := "Q"; a_rows := PInt 2; a_cols := PInt 1; a_min := XQ 0; a_max := XQ 220;
     a_init := Some (A1 [XQ 200; XQ 50]); a_vrows := None; a_names := [("A01", Some "stock")] |}.
Definition ex_prog3 : list op :=
  [ OTransfer 0 (A1 ["B01"; "A01"]) 0 (A1 ["A01"; "B01"]) (A1 [10; 200]) None SFlush "auto" kw_default;
    ODispense 0 (A1 ["A01"; "B01"; "A01"]) (A1 [XQ 30; XQ 500; XQ 10]) None
              (Some [Some [("a", 1)]; Some [("b", 1)]; Some [("c", 1)]]) kw_default;
    OAspirate 0 (A0 "A01") (A0 (XQ 5)) None kw_default ].

Example C05_example_rejected :
  match build_all [CPlate ex_args_q] with
  | Some [L] =>
      let s := {| st_lw := [L]; st_wl := ex_w0 |} in
      forallb op_mixb ex_prog3 = true /\
      snd (run s ex_prog3) = [Some EOverflow; Some EOverflow; None] /\
      plan true 950 BySource (transfer_triples (A1 ["B01"; "A01"]) (A1 ["A01"; "B01"]) (A1 [10; 200]))
      = ([] ++ Step "A01" "B01" 200 :: [Step "B01" "A01" 10])%list /\
      let W0 := abs_state s in
      let W1 := is_upd W0 0 0 (iw_remove (W0 0 0)%nat 200) in         (* 200 taken, never dispensed *)
      let W2 := is_add W1 0 L (zip (zip ["A01"; "B01"; "A01"] [30]) [[("a", 1)]; [("b", 1)]; [("c", 1)]]) in
      let W3 := is_rem W2 0 L [("A01", 5)] in
      show W3 0 [0; 1]%nat ["stock"; "Q.B01"; "a"; "b"; "c"]
      = [(25, [0; 0; 25; 0; 0]); (50, [0; 50; 0; 0; 0])] /\
      show (abs_state (fst (run s ex_prog3))) 0 [0; 1]%nat ["stock"; "Q.B01"; "a"; "b"; "c"]
      = [(25, [0; 0; 25; 0; 0]); (50, [0; 50; 0; 0; 0])]
  | _ => False
  end.
Proof. vm_compute. repeat split. Qed.

(** compositions missing (C05_run_refines_built_unknown, audit REVIEW2 N2a / experiment E6), on the
    trough T (labware 0) and the plate P (labware 1) of [ex_ctors]: a plain dispense of 100 into
    column 1 (500 of "T.column_01") and into the never-filled column 2 of the trough; a transfer
    of 240 from column 1 into B01 of the plate; an [add] that addresses C01 twice, first without,
    then with a composition.  The program is outside [op_mix]; the hypotheses of
    C05_run_refines_built_unknown evaluate to true and it has an ideal meaning ... *)
Definition ex_prog4 : list op :=
  [ ODispense 0 (A1 ["A01"; "A02"]) (A0 (XQ 100)) None None kw_default;
    OTransfer 0 (A0 "A01") 1 (A0 "B01") (A0 240) None SFlush "auto" kw_default;
    OAdd 1 (A1 ["C01"; "C01"]) (A1 [XQ 10; XQ 40]) None (Some [None; Some [("b", 1)]]) ].

Example C05_example_unknown :
  match build_all ex_ctors with
  | Some lws =>
      let s := {| st_lw := lws; st_wl := ex_w0 |} in
      forallb op_mixb ex_prog4 = false /\
      forallb op_comps_okb ex_prog4 = true /\
      run_cleanb s ex_prog4 = true /\
      forallb is_none (snd (run s ex_prog4)) = true /\
      is_run true 950 lws ex_prog4 <> None
  | None => False
  end.
Proof. vm_compute. repeat split; discriminate. Qed.

(** ... and the fold gives what the model tracks: the 100 of unknown liquid in column 1 count as
    "T.column_01" (600, of which 240 go to B01), the 100 in column 2 are of nothing known; C01 of the
    plate holds 60 of "P.C01" (50 + 10 booked as more of the same) and 40 of "b" *)
Example C05_example_unknown_refines :
  match build_all ex_ctors with
  | Some lws =>
      let s := {| st_lw := lws; st_wl := ex_w0 |} in
      match is_run true 950 lws ex_prog4 with
      | Some F =>
          show (F (abs_state s)) 0 [0; 1; 2]%nat ["T.column_01"; "water"]
          = [(360, [360; 0]); (100, [0; 0]); (100, [0; 100])] /\
          show (abs_state (fst (run s ex_prog4))) 0 [0; 1; 2]%nat ["T.column_01"; "water"]
          = [(360, [360; 0]); (100, [0; 0]); (100, [0; 100])] /\
          show (F (abs_state s)) 1 [0; 1; 2; 3]%nat ["stock"; "P.B01"; "P.C01"; "T.column_01"; "b"]
          = [(200, [200; 0; 0; 0; 0]); (290, [0; 50; 0; 240; 0]); (100, [0; 0; 60; 0; 40]);
             (50, [0; 0; 0; 0; 0])] /\
          show (abs_state (fst (run s ex_prog4))) 1 [0; 1; 2; 3]%nat
               ["stock"; "P.B01"; "P.C01"; "T.column_01"; "b"]
          = [(200, [200; 0; 0; 0; 0]); (290, [0; 50; 0; 240; 0]); (100, [0; 0; 60; 0; 40]);
             (50, [0; 0; 0; 0; 0])]
      | None => False
      end
  | None => False
  end.
Proof. vm_compute. repeat split. Qed.

(** the emptied well of C05_run_refines_unknown_refuted on plate Q ([ex_args_q]: 200 of "stock" in
    A01, min_volume 0): after the aspirate A01 is empty but keeps the fraction 1 of "stock", so the
    plain dispense is not [run_clean]; the model then reports 30 of "stock" *)
Example C05_example_unknown_emptied :
  match build_all [CPlate ex_args_q] with
  | Some [L] =>
      let s := {| st_lw := [L]; st_wl := ex_w0 |} in
      let prog := [ OAspirate 0 (A0 "A01") (A0 (XQ 200)) None kw_default;
                    ODispense 0 (A0 "A01") (A0 (XQ 30)) None None kw_default ] in
      snd (run s prog) = [None; None] /\
      run_cleanb s (firstn 1 prog) = true /\ run_cleanb s prog = false /\
      show (abs_state (fst (run s (firstn 1 prog)))) 0 [0]%nat ["stock"] = [(0, [0])] /\
      match st_lw (fst (run s (firstn 1 prog))) with
      | [L1] => Qred (frac L1 "stock" 0) = 1
      | _ => False
      end /\
      show (abs_state (fst (run s prog))) 0 [0]%nat ["stock"] = [(30, [30])]
  | _ => False
  end.
Proof. vm_compute. repeat split. Qed.
