(** C20 — A Labware or Trough that is constructed without error is well formed: ids, index map and
    volume array describe the same grid, the initial volumes are the given ones and lie in
    [0, max_volume], 0 <= min_volume < max_volume, the history holds exactly the initial state and
    the composition has one 100 % component for precisely the non-empty wells.  Specifications that
    cannot be represented raise ValueError.
    Statements only; proofs in Proofs/CtorProofs.v and Proofs/CtorLimitsProofs.v. *)
From Robo Require Import Prelude Str Wells Utils Labware Invariants CtorProofs CtorLimitsProofs.

(* ------------------------------------------------------------------ definitions used in the statements *)

(** the value given for the real well with flat (row-major) index [i] *)
Definition init_value (init : option (arr xnum)) (i : nat) : xnum :=
  match init with
  | None => XQ 0
  | Some (A0 x) => x
  | Some (A1 xs) => nth i xs XNaN
  | Some (A2 rs) => nth i (concat rs) XNaN
  end.

(** the value given for column [c] of a trough *)
Definition column_value (init : arr xnum) (c : nat) : xnum :=
  match init with A0 x => x | A1 xs => nth c xs XNaN | A2 _ => XNaN end.

(** the component that fills real well [i] of a Labware: the user-given name of that well if there is
    one, else [name.id] on labware with more than one real well, else [name] *)
Definition component_of_well (a : lw_args) (L : labware) (i : nat) : string :=
  let w := well_id (i / g_cols (lw_geom L)) (i mod g_cols (lw_geom L)) in
  match assoc_get w (a_names a) with
  | Some (Some s) => s
  | _ => if (1 <? g_rows (lw_geom L) * g_cols (lw_geom L))%nat then (a_name a ++ "." ++ w)%string else a_name a
  end.

(** [column_names] of a Trough after the convenience conversions *)
Definition column_names (a : trough_args) (ncol : nat) : list (option string) :=
  match t_colnames a with
  | CNone => repeat None ncol
  | CStr s => [Some s]
  | CList l => l
  end.

(** the component that fills column [c] of a Trough: the given column name, else [name.column_NN]
    when there are several columns, else [name] *)
Definition component_of_column (a : trough_args) (L : labware) (c : nat) : string :=
  match nth c (column_names a (g_cols (lw_geom L))) None with
  | Some s => s
  | None => if (1 <? g_cols (lw_geom L))%nat
            then (t_name a ++ ".column_" ++ pad2 (c + 1))%string else t_name a
  end.

(* ------------------------------------------------------------------ C20_wf *)

(** shape invariant and volume-limit invariant hold initially *)
Theorem C20_wf_labware : forall a L, mk_labware a = Ok L -> wf_labware L.
Proof. exact mk_labware_wf. Qed.
Print Assumptions C20_wf_labware.

Theorem C20_wf_trough : forall a L, mk_trough a = Ok L -> wf_labware L.
Proof. exact mk_trough_wf. Qed.
Print Assumptions C20_wf_trough.

(* ------------------------------------------------------------------ C20_geometry *)

(** rows and columns are the given integers, 1 <= rows <= 26, 1 <= columns; virtual rows only on
    single-row labware and then within 1..26; the number of row letters is the number of (virtual)
    rows; the volume list has rows x columns entries; the id table has one row of [g_cols] ids per
    row letter *)
Theorem C20_geometry_labware : forall a L, mk_labware a = Ok L ->
  let g := lw_geom L in
  a_rows a = PInt (Z.of_nat (g_rows g)) /\ a_cols a = PInt (Z.of_nat (g_cols g)) /\
  1 <= g_rows g <= 26 /\ 1 <= g_cols g /\
  match a_vrows a with
  | None => g_vrows g = None
  | Some p => exists v, p = PInt (Z.of_nat v) /\ g_vrows g = Some v /\ g_rows g = 1 /\ 1 <= v <= 26
  end /\
  n_row_ids g = match g_vrows g with Some v => v | None => g_rows g end /\
  length (lw_vols L) = g_rows g * g_cols g /\
  length (wells_table g) = n_row_ids g /\
  Forall (fun row => length row = g_cols g) (wells_table g).
Proof. exact mk_labware_geometry. Qed.
Print Assumptions C20_geometry_labware.

Theorem C20_geometry_trough : forall a L, mk_trough a = Ok L ->
  let g := lw_geom L in
  g_rows g = 1 /\ t_cols a = PInt (Z.of_nat (g_cols g)) /\ 1 <= g_cols g /\
  (exists v, t_vrows a = PInt (Z.of_nat v) /\ g_vrows g = Some v /\ 1 <= v <= 26 /\ n_row_ids g = v) /\
  length (lw_vols L) = g_cols g /\
  length (wells_table g) = n_row_ids g /\
  Forall (fun row => length row = g_cols g) (wells_table g).
Proof. exact mk_trough_geometry. Qed.
Print Assumptions C20_geometry_trough.

(** id table, index map and volume array describe the same grid: the id in table cell (r, c) is a key
    of the index map and denotes cell (r, c) of the volumes — cell (0, c) for the virtual rows of a
    trough; conversely every index the map returns lies inside the volume array *)
Theorem C20_tables_labware : forall a L, mk_labware a = Ok L ->
  forall r c, r < n_row_ids (lw_geom L) -> c < g_cols (lw_geom L) ->
  let real_row := match g_vrows (lw_geom L) with Some _ => 0 | None => r end in
  lw_index L (nth c (nth r (wells_table (lw_geom L)) []) EmptyString)
    = Some (real_row * g_cols (lw_geom L) + c) /\
  real_row * g_cols (lw_geom L) + c < length (lw_vols L).
Proof. exact mk_labware_table_index. Qed.
Print Assumptions C20_tables_labware.

Theorem C20_tables_trough : forall a L, mk_trough a = Ok L ->
  forall r c, r < n_row_ids (lw_geom L) -> c < g_cols (lw_geom L) ->
  lw_index L (nth c (nth r (wells_table (lw_geom L)) []) EmptyString) = Some c /\
  c < length (lw_vols L).
Proof. exact mk_trough_table_index. Qed.
Print Assumptions C20_tables_trough.

Theorem C20_index_range_labware : forall a L w i, mk_labware a = Ok L ->
  lw_index L w = Some i -> i < length (lw_vols L).
Proof. exact mk_labware_index_range. Qed.
Print Assumptions C20_index_range_labware.

Theorem C20_index_range_trough : forall a L w i, mk_trough a = Ok L ->
  lw_index L w = Some i -> i < length (lw_vols L).
Proof. exact mk_trough_index_range. Qed.
Print Assumptions C20_index_range_trough.

(* ------------------------------------------------------------------ C20_layout *)

(** every real well holds the (finite) value given for it, and that value lies in [0, max_volume] *)
Theorem C20_layout : forall a L, mk_labware a = Ok L ->
  forall i, i < length (lw_vols L) ->
  exists v, init_value (a_init a) i = XQ v /\ nth i (lw_vols L) 0%Q == v /\
            (0 <= v)%Q /\ (v <= lw_max L)%Q.
Proof. exact mk_labware_layout. Qed.
Print Assumptions C20_layout.

(** no initial volumes: all wells empty *)
Theorem C20_layout_default : forall a L, mk_labware a = Ok L -> a_init a = None ->
  forall i, i < length (lw_vols L) -> nth i (lw_vols L) 0%Q == 0.
Proof. exact layout_none. Qed.
Print Assumptions C20_layout_default.

(** a scalar is broadcast *)
Theorem C20_layout_scalar : forall a L x, mk_labware a = Ok L -> a_init a = Some (A0 x) ->
  exists v, x = XQ v /\ forall i, i < length (lw_vols L) -> nth i (lw_vols L) 0%Q == v.
Proof. exact layout_scalar. Qed.
Print Assumptions C20_layout_scalar.

(** a flat list is reshaped row-major *)
Theorem C20_layout_flat : forall a L ys, mk_labware a = Ok L -> a_init a = Some (A1 ys) ->
  length ys = length (lw_vols L) /\
  forall i d, i < length ys -> exists v, nth i ys d = XQ v /\ nth i (lw_vols L) 0%Q == v.
Proof. exact layout_flat. Qed.
Print Assumptions C20_layout_flat.

(** a 2-D list is taken row by row *)
Theorem C20_layout_2d : forall a L rs, mk_labware a = Ok L -> a_init a = Some (A2 rs) ->
  length (concat rs) = length (lw_vols L) /\
  forall i d, i < length (concat rs) ->
    exists v, nth i (concat rs) d = XQ v /\ nth i (lw_vols L) 0%Q == v.
Proof. exact layout_2d. Qed.
Print Assumptions C20_layout_2d.

Theorem C20_layout_2d_rows : forall a L rs, mk_labware a = Ok L -> a_init a = Some (A2 rs) ->
  Forall (fun r => length r = g_cols (lw_geom L)) rs ->
  length rs = g_rows (lw_geom L) /\
  forall r c d, r < g_rows (lw_geom L) -> c < g_cols (lw_geom L) ->
    exists v, nth c (nth r rs []) d = XQ v /\
              nth (r * g_cols (lw_geom L) + c) (lw_vols L) 0%Q == v.
Proof. exact layout_2d_rect. Qed.
Print Assumptions C20_layout_2d_rows.

(** troughs: one value per column *)
Theorem C20_layout_trough : forall a L, mk_trough a = Ok L ->
  forall c, c < g_cols (lw_geom L) ->
  exists v, column_value (t_init a) c = XQ v /\
            nth c (lw_vols L) 0%Q == v /\ (0 <= v)%Q /\ (v <= lw_max L)%Q.
Proof. exact mk_trough_layout. Qed.
Print Assumptions C20_layout_trough.

Theorem C20_layout_trough_scalar : forall a L x, mk_trough a = Ok L -> t_init a = A0 x ->
  exists v, x = XQ v /\ forall c, c < g_cols (lw_geom L) -> nth c (lw_vols L) 0%Q == v.
Proof. exact trough_layout_scalar. Qed.
Print Assumptions C20_layout_trough_scalar.

Theorem C20_layout_trough_list : forall a L xs, mk_trough a = Ok L -> t_init a = A1 xs ->
  length xs = g_cols (lw_geom L) /\
  forall c d, c < length xs -> exists v, nth c xs d = XQ v /\ nth c (lw_vols L) 0%Q == v.
Proof. exact trough_layout_list. Qed.
Print Assumptions C20_layout_trough_list.

(* ------------------------------------------------------------------ C20_limits *)

Theorem C20_limits_labware : forall a L, mk_labware a = Ok L ->
  a_min a = XQ (lw_min L) /\ a_max a = XQ (lw_max L) /\
  (0 <= lw_min L)%Q /\ (lw_min L < lw_max L)%Q.
Proof. exact mk_labware_limits. Qed.
Print Assumptions C20_limits_labware.

Theorem C20_limits_trough : forall a L, mk_trough a = Ok L ->
  t_min a = XQ (lw_min L) /\ t_max a = XQ (lw_max L) /\
  (0 <= lw_min L)%Q /\ (lw_min L < lw_max L)%Q.
Proof. exact mk_trough_limits. Qed.
Print Assumptions C20_limits_trough.

(* ------------------------------------------------------------------ C20_history *)

Theorem C20_history_labware : forall a L, mk_labware a = Ok L ->
  lw_hist L = [(Some "initial"%string, lw_vols L)] /\ lw_name L = a_name a.
Proof. exact mk_labware_history. Qed.
Print Assumptions C20_history_labware.

Theorem C20_history_trough : forall a L, mk_trough a = Ok L ->
  lw_hist L = [(Some "initial"%string, lw_vols L)] /\ lw_name L = t_name a.
Proof. exact mk_trough_history. Qed.
Print Assumptions C20_history_trough.

(* ------------------------------------------------------------------ C20_composition *)

(** component names are pairwise distinct, every array covers the real wells, every component fills
    at least one non-empty well; an empty well has fraction 0 in every component (and no user-given
    name); a non-empty well has fraction 1 in exactly its own component and 0 in all others *)
Theorem C20_composition_labware : forall a L, mk_labware a = Ok L ->
  let n := (g_rows (lw_geom L) * g_cols (lw_geom L))%nat in
  NoDup (map fst (lw_comp L)) /\
  Forall (fun ka => length (snd ka) = n) (lw_comp L) /\
  (forall k arr, In (k, arr) (lw_comp L) ->
     exists i, i < n /\ ~ nth i (lw_vols L) 0%Q == 0 /\ component_of_well a L i = k) /\
  (forall i, i < n -> nth i (lw_vols L) 0%Q == 0 ->
     (forall s, assoc_get (well_id (i / g_cols (lw_geom L)) (i mod g_cols (lw_geom L))) (a_names a)
                <> Some (Some s)) /\
     forall k arr, In (k, arr) (lw_comp L) -> nth i arr 0%Q = 0%Q) /\
  (forall i, i < n -> ~ nth i (lw_vols L) 0%Q == 0 ->
     exists arr, In (component_of_well a L i, arr) (lw_comp L) /\ nth i arr 0%Q = 1%Q /\
       forall k' arr', In (k', arr') (lw_comp L) -> k' <> component_of_well a L i ->
                       nth i arr' 0%Q = 0%Q).
Proof. exact mk_labware_composition_closed. Qed.
Print Assumptions C20_composition_labware.

Theorem C20_composition_trough : forall a L, mk_trough a = Ok L ->
  let n := g_cols (lw_geom L) in
  NoDup (map fst (lw_comp L)) /\
  Forall (fun ka => length (snd ka) = n) (lw_comp L) /\
  (forall k arr, In (k, arr) (lw_comp L) ->
     exists c, c < n /\ ~ nth c (lw_vols L) 0%Q == 0 /\ component_of_column a L c = k) /\
  (forall c, c < n -> nth c (lw_vols L) 0%Q == 0 ->
     nth c (column_names a n) None = None /\
     forall k arr, In (k, arr) (lw_comp L) -> nth c arr 0%Q = 0%Q) /\
  (forall c, c < n -> ~ nth c (lw_vols L) 0%Q == 0 ->
     exists arr, In (component_of_column a L c, arr) (lw_comp L) /\ nth c arr 0%Q = 1%Q /\
       forall k' arr', In (k', arr') (lw_comp L) -> k' <> component_of_column a L c ->
                       nth c arr' 0%Q = 0%Q).
Proof. exact mk_trough_composition. Qed.
Print Assumptions C20_composition_trough.

(** one (possibly None) column name per column *)
Theorem C20_colnames_trough : forall a L, mk_trough a = Ok L ->
  length (column_names a (g_cols (lw_geom L))) = g_cols (lw_geom L).
Proof. exact mk_trough_colnames_length. Qed.
Print Assumptions C20_colnames_trough.

(** the keys of [component_names] are real wells *)
Theorem C20_names_real : forall a L w s, mk_labware a = Ok L -> In (w, s) (a_names a) ->
  exists r c, r < g_rows (lw_geom L) /\ c < g_cols (lw_geom L) /\ w = well_id r c.
Proof. exact mk_labware_names_real. Qed.
Print Assumptions C20_names_real.

(* ------------------------------------------------------------------ C20_reject *)

(** every exception of the constructors is a ValueError *)
Theorem C20_error_class_labware : forall a e, mk_labware a = Err e -> e = EValue.
Proof. exact mk_labware_err. Qed.
Print Assumptions C20_error_class_labware.

Theorem C20_error_class_trough : forall a e, mk_trough a = Err e -> e = EValue.
Proof. exact mk_trough_err. Qed.
Print Assumptions C20_error_class_trough.

(** each of the following holds whatever the other arguments are *)

(** rows: not an int, < 1, or more than the 26 row letters *)
Theorem C20_reject_rows : forall a,
  a_rows a = PNotInt \/ (exists z, a_rows a = PInt z /\ (z < 1 \/ 26 < z)%Z) ->
  mk_labware a = Err EValue.
Proof. exact reject_rows. Qed.
Print Assumptions C20_reject_rows.

Theorem C20_reject_cols : forall a,
  a_cols a = PNotInt \/ (exists z, a_cols a = PInt z /\ (z < 1)%Z) ->
  mk_labware a = Err EValue.
Proof. exact reject_cols. Qed.
Print Assumptions C20_reject_cols.

(** virtual rows on multi-row labware *)
Theorem C20_reject_vrows_multirow : forall a p,
  a_vrows a = Some p -> a_rows a <> PInt 1 -> mk_labware a = Err EValue.
Proof. exact reject_vrows_multirow. Qed.
Print Assumptions C20_reject_vrows_multirow.

(** virtual rows: not an int, < 1 or > 26 *)
Theorem C20_reject_vrows_invalid : forall a p,
  a_vrows a = Some p -> p = PNotInt \/ (exists z, p = PInt z /\ (z < 1 \/ 26 < z)%Z) ->
  mk_labware a = Err EValue.
Proof. exact reject_vrows_invalid. Qed.
Print Assumptions C20_reject_vrows_invalid.

(** NaN or infinite limits, for exactly the combinations that the LIBRARY rejects
      if min_volume is None or not min_volume >= 0:          raise ValueError
      if max_volume is None or not max_volume > min_volume:  raise ValueError
    i.e. min_volume in {NaN, +inf, -inf} (+inf passes the first test and fails the second for every
    max_volume) or max_volume in {NaN, -inf}.
    NOT covered: [max_volume = +inf] with a finite [min_volume >= 0]. The library ACCEPTS it
    ([Labware('p',2,3,min_volume=0,max_volume=float('inf'))] works, and [add('A01', inf)] then leaves [inf]
    in the well), the model answers [Err EValue] (it rejects every non-finite limit). That configuration is
    OUTSIDE the model: the correspondence harness never generates it and no theorem is claimed for it - in
    particular "finite, <= max_volume" (C02) does not transfer to a labware built with an infinite max_volume. *)
Theorem C20_reject_limits_not_finite : forall a,
  a_min a = XNaN \/ a_min a = XPInf \/ a_min a = XNInf \/ a_max a = XNaN \/ a_max a = XNInf ->
  mk_labware a = Err EValue.
Proof. exact reject_limits_lib. Qed.
Print Assumptions C20_reject_limits_not_finite.

Theorem C20_reject_min_negative : forall a lo,
  a_min a = XQ lo -> (lo < 0)%Q -> mk_labware a = Err EValue.
Proof. exact reject_min_negative. Qed.
Print Assumptions C20_reject_min_negative.

Theorem C20_reject_max_le_min : forall a lo hi,
  a_min a = XQ lo -> a_max a = XQ hi -> (hi <= lo)%Q -> mk_labware a = Err EValue.
Proof. exact reject_max_le_min. Qed.
Print Assumptions C20_reject_max_le_min.

(** an initial volume that is NaN / infinite, negative or above max_volume *)
Theorem C20_reject_bad_volume : forall a ar x,
  a_init a = Some ar -> In x (flattenC ar) ->
  xfinite x = None \/
  (exists v, x = XQ v /\ ((v < 0)%Q \/ exists mx, a_max a = XQ mx /\ (mx < v)%Q)) ->
  mk_labware a = Err EValue.
Proof. exact reject_bad_volume. Qed.
Print Assumptions C20_reject_bad_volume.

(** a flat or 2-D list with a total size other than rows x columns *)
Theorem C20_reject_wrong_size : forall a ar zr zc,
  a_init a = Some ar -> (match ar with A0 _ => False | _ => True end) ->
  a_rows a = PInt zr -> a_cols a = PInt zc ->
  Z.of_nat (length (flattenC ar)) <> (zr * zc)%Z ->
  mk_labware a = Err EValue.
Proof. exact reject_wrong_size. Qed.
Print Assumptions C20_reject_wrong_size.

(** a component name for an id that is not a real well of the labware *)
Theorem C20_reject_unknown_well : forall a w s zr zc,
  In (w, s) (a_names a) -> a_rows a = PInt zr -> a_cols a = PInt zc ->
  (forall r c, (Z.of_nat r < zr)%Z -> (Z.of_nat c < zc)%Z -> w <> well_id r c) ->
  mk_labware a = Err EValue.
Proof. exact reject_unknown_well. Qed.
Print Assumptions C20_reject_unknown_well.

(** a (non-None) component name for a well whose initial volume is 0 *)
Theorem C20_reject_named_empty : forall a R C i v s,
  a_rows a = PInt (Z.of_nat R) -> a_cols a = PInt (Z.of_nat C) -> i < R * C ->
  init_value (a_init a) i = XQ v -> v == 0 ->
  assoc_get (well_id (i / C) (i mod C)) (a_names a) = Some (Some s) ->
  mk_labware a = Err EValue.
Proof. exact reject_named_empty. Qed.
Print Assumptions C20_reject_named_empty.

(** Trough: columns not an int or < 1 *)
Theorem C20_reject_trough_cols : forall a,
  t_cols a = PNotInt \/ (exists z, t_cols a = PInt z /\ (z < 1)%Z) -> mk_trough a = Err EValue.
Proof. exact treject_cols. Qed.
Print Assumptions C20_reject_trough_cols.

Theorem C20_reject_trough_vrows : forall a,
  t_vrows a = PNotInt \/ (exists z, t_vrows a = PInt z /\ (z < 1 \/ 26 < z)%Z) ->
  mk_trough a = Err EValue.
Proof. exact treject_vrows. Qed.
Print Assumptions C20_reject_trough_vrows.

(** Trough: column-name list of the wrong length (a single string counts as a list of one) *)
Theorem C20_reject_trough_colnames : forall a z,
  t_cols a = PInt z ->
  match t_colnames a with
  | CNone => False
  | CStr _ => z <> 1%Z
  | CList l => Z.of_nat (length l) <> z
  end -> mk_trough a = Err EValue.
Proof. exact treject_colnames_length. Qed.
Print Assumptions C20_reject_trough_colnames.

(** Trough: per-column volume list of the wrong length, or a 2-D argument *)
Theorem C20_reject_trough_init_shape : forall a z,
  t_cols a = PInt z ->
  match t_init a with
  | A0 _ => False
  | A1 xs => Z.of_nat (length xs) <> z
  | A2 _ => True
  end -> mk_trough a = Err EValue.
Proof. exact treject_init_shape. Qed.
Print Assumptions C20_reject_trough_init_shape.

(** Trough: a column name for an empty column *)
Theorem C20_reject_trough_named_empty : forall a z c s v,
  t_cols a = PInt z -> c < Z.to_nat z ->
  nth c (column_names a (Z.to_nat z)) None = Some s ->
  column_value (t_init a) c = XQ v -> v == 0 ->
  mk_trough a = Err EValue.
Proof. exact treject_named_empty. Qed.
Print Assumptions C20_reject_trough_named_empty.

(** limits of a trough: same restriction as C20_reject_limits_not_finite ([max_volume = +inf] with a finite
    [min_volume >= 0] is accepted by the library and is outside the model; nothing is claimed for it) *)
Theorem C20_reject_trough_limits : forall a,
  t_min a = XNaN \/ t_min a = XPInf \/ t_min a = XNInf \/ t_max a = XNaN \/ t_max a = XNInf \/
  (exists lo hi, t_min a = XQ lo /\ t_max a = XQ hi /\ ((lo < 0)%Q \/ (hi <= lo)%Q)) ->
  mk_trough a = Err EValue.
Proof. exact treject_limits_lib. Qed.
Print Assumptions C20_reject_trough_limits.

Theorem C20_reject_trough_bad_volume : forall a x,
  In x (flattenC (t_init a)) ->
  xfinite x = None \/
  (exists v, x = XQ v /\ ((v < 0)%Q \/ exists hi, t_max a = XQ hi /\ (hi < v)%Q)) ->
  mk_trough a = Err EValue.
Proof. exact treject_bad_volume. Qed.
Print Assumptions C20_reject_trough_bad_volume.

(* ------------------------------------------------------------------ examples *)

(** an accepted 2 x 3 plate: two wells share the component "water", one gets the default name *)
Example C20_example_plate :
  mk_labware
    {| a_name := "plate"; a_rows := PInt 2; a_cols := PInt 3; a_min := XQ 5; a_max := XQ 250.5;
       a_init := Some (A2 [[XQ 0; XQ 10; XQ 0]; [XQ (1 # 2); XQ 0; XQ 250.5]]);
       a_vrows := None;
       a_names := [("A02", Some "water"); ("B03", None); ("B01", Some "water")]%string |}
  = Ok {| lw_name := "plate";
          lw_geom := {| g_rows := 2; g_cols := 3; g_vrows := None |};
          lw_min := 5; lw_max := 250.5;
          lw_vols := [0; 10; 0; 1 # 2; 0; 501 # 2]%Q;
          lw_comp := [("water", [0; 1; 0; 1; 0; 0]%Q); ("plate.B03", [0; 0; 0; 0; 0; 1]%Q)]%string;
          lw_hist := [(Some "initial"%string, [0; 10; 0; 1 # 2; 0; 501 # 2]%Q)] |}.
Proof. vm_compute. reflexivity. Qed.

(** an accepted trough with 8 virtual rows and 3 columns *)
Example C20_example_trough :
  mk_trough
    {| t_name := "stock"; t_vrows := PInt 8; t_cols := PInt 3; t_min := XQ 1000; t_max := XQ 30000;
       t_init := A1 [XQ 20000; XQ 0; XQ 1500];
       t_colnames := CList [Some "acid"%string; None; None] |}
  = Ok {| lw_name := "stock";
          lw_geom := {| g_rows := 1; g_cols := 3; g_vrows := Some 8 |};
          lw_min := 1000; lw_max := 30000;
          lw_vols := [20000; 0; 1500]%Q;
          lw_comp := [("acid", [1; 0; 0]%Q); ("stock.column_03", [0; 0; 1]%Q)]%string;
          lw_hist := [(Some "initial"%string, [20000; 0; 1500]%Q)] |}.
Proof. vm_compute. reflexivity. Qed.

(** rejected: an infinite initial volume; a name for an empty trough column; 27 rows *)
Example C20_example_rejected :
  mk_labware
    {| a_name := "plate"; a_rows := PInt 2; a_cols := PInt 3; a_min := XQ 5; a_max := XQ 250.5;
       a_init := Some (A1 [XQ 0; XQ 10; XQ 0; XQ (1 # 2); XQ 0; XPInf]);
       a_vrows := None; a_names := [] |} = Err EValue /\
  mk_trough
    {| t_name := "stock"; t_vrows := PInt 8; t_cols := PInt 2; t_min := XQ 0; t_max := XQ 100;
       t_init := A1 [XQ 0; XQ 50]; t_colnames := CList [Some "acid"%string; None] |} = Err EValue /\
  mk_labware
    {| a_name := "big"; a_rows := PInt 27; a_cols := PInt 1; a_min := XQ 0; a_max := XQ 100;
       a_init := None; a_vrows := None; a_names := [] |} = Err EValue.
Proof. vm_compute. repeat split. Qed.
