(** C17 — saving a worklist: the file content is exactly the records joined by CRLF, with no trailing
    line break and no residue of an older file; reading back returns the records; names without a
    .gwl extension are refused; string conversion shows the same records.
    Statements only; proofs live in Proofs/SaveProofs.v. *)
From Robo Require Import Prelude Str Save SaveProofs.
Local Open Scope string_scope.

(** the record contains no carriage return (ASCII 13) / no line feed (ASCII 10) *)
Definition no_cr (s : string) : Prop := contains_char (ascii_of_nat 13) s = false.
Definition no_lf (s : string) : Prop := contains_char (ascii_of_nat 10) s = false.
(** the eight spellings of the extension *)
Definition gwl_mixes : list string := ["gwl"; "gwL"; "gWl"; "gWL"; "Gwl"; "GwL"; "GWl"; "GWL"].

(** ** content and round trip *)

Theorem C17_roundtrip : forall recs, recs <> [] -> Forall no_cr recs ->
  decode_file (encode_file recs) = recs.
Proof. exact sv_roundtrip. Qed.
Print Assumptions C17_roundtrip.

(** an empty worklist gives an empty file, which reads back as one empty line *)
Theorem C17_roundtrip_empty : encode_file [] = "" /\ decode_file "" = [""].
Proof. exact sv_roundtrip_empty. Qed.
Print Assumptions C17_roundtrip_empty.

(** nothing follows the last record *)
Theorem C17_no_trailing_break : forall recs r,
  encode_file (recs ++ [r])%list = encode_file recs ++ (match recs with [] => "" | _ :: _ => crlf end) ++ r.
Proof. exact sv_no_trailing_break. Qed.
Print Assumptions C17_no_trailing_break.

(** an accepted name: the new content replaces whatever was there; a refused name: nothing is written *)
Theorem C17_overwrite : forall name old recs,
  (name_ok name = true -> save name old recs = (Some (encode_file recs), None)) /\
  (name_ok name = false -> save name old recs = (old, Some EReject)).
Proof. exact sv_overwrite. Qed.
Print Assumptions C17_overwrite.

(** ** the file-name check *)

(** exact characterisation: a non-empty stem followed by a dot and one of the spellings of gwl *)
Theorem C17_name : forall name,
  name_ok name = true <-> exists base x, base <> "" /\ name = base ++ "." ++ x /\ lower x = "gwl".
Proof. exact sv_name_iff. Qed.
Print Assumptions C17_name.

Theorem C17_name_spellings : forall x, lower x = "gwl" <-> In x gwl_mixes.
Proof. exact sv_lower_gwl. Qed.
Print Assumptions C17_name_spellings.

Theorem C17_name_gwl : forall base x, base <> "" -> lower x = "gwl" -> name_ok (base ++ "." ++ x) = true.
Proof. exact sv_name_gwl. Qed.
Print Assumptions C17_name_gwl.

(** only the part after the last dot counts *)
Theorem C17_name_ext : forall pre x, pre <> "" -> contains_char "."%char x = false ->
  name_ok (pre ++ "." ++ x) = String.eqb (lower x) "gwl".
Proof. exact sv_name_ext. Qed.
Print Assumptions C17_name_ext.

(** no dot after the first character (this includes the hidden file ".gwl" and the empty name) *)
Theorem C17_name_nodot : forall name, contains_char "."%char (str_tail name) = false -> name_ok name = false.
Proof. exact sv_name_nodot. Qed.
Print Assumptions C17_name_nodot.

(** a further extension after .gwl *)
Theorem C17_name_double : forall base x, contains_char "."%char x = false -> lower x <> "gwl" ->
  name_ok (base ++ ".gwl" ++ "." ++ x) = false.
Proof. exact sv_name_double. Qed.
Print Assumptions C17_name_double.

(** ** string conversion *)

Theorem C17_str : forall recs, str_worklist recs = join lf recs.
Proof. exact sv_str. Qed.
Print Assumptions C17_str.

Theorem C17_str_split : forall recs, recs <> [] -> Forall no_lf recs ->
  split_on (ascii_of_nat 10) (str_worklist recs) = recs.
Proof. exact sv_str_split. Qed.
Print Assumptions C17_str_split.

(** ** non-vacuity *)

Example C17_example :
  let recs := ["A;Src;;;1;;10.00;;;"; "D;Dst;;;1;;10.00;;;"; "W1;"; ""; "B;"] in
  encode_file recs =
    "A;Src;;;1;;10.00;;;" ++ crlf ++ "D;Dst;;;1;;10.00;;;" ++ crlf ++ "W1;" ++ crlf ++ crlf ++ "B;" /\
  decode_file (encode_file recs) = recs /\
  split_on (ascii_of_nat 10) (str_worklist recs) = recs /\
  save "out/plan.GwL" (Some "old content, longer than the new one ..........................................")
       recs = (Some (encode_file recs), None) /\
  save "plan.gwl.txt" (Some "old") recs = (Some "old", Some EReject) /\
  save ".gwl" None recs = (None, Some EReject).
Proof. vm_compute. repeat split. Qed.

Example C17_example_hyps :
  Forall no_cr ["A;Src;;;1;;10.00;;;"; ""; "B;"] /\ Forall no_lf ["A;Src;;;1;;10.00;;;"; ""; "B;"].
Proof. split; repeat constructor. Qed.

(** the hypothesis of C17_roundtrip is needed: a record containing CRLF is read back as two *)
Example C17_example_cr : decode_file (encode_file ["a" ++ crlf ++ "b"; "c"]) = ["a"; "b"; "c"].
Proof. vm_compute. reflexivity. Qed.
