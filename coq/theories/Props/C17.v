(** C17 — saving a worklist: the file content is exactly the records joined by CRLF, with no trailing
    line break and no residue of an older file or an earlier save; reading back returns the records; paths
    whose last component has no .gwl extension are refused; leaving a [with] block writes the records appended
    inside the block; string conversion shows the same records.
    Statements only; proofs live in Proofs/SaveProofs.v.

    What is DEFINITIONAL here (the file model of Model/Save.v, not a theorem about the operating system):
    a successful [save] leaves the followed file with exactly [encode_file recs] (the library unlinks the file
    and opens it with mode "w"); a refused [save] leaves it as it was (the assertion is tested first).
    [C17_overwrite], [C17_resave], [C17_exit_exception], [C17_enter], [C17_str] unfold these definitions.
    What is PROVED about the functions: the text produced ([encode_file] through the newline translation),
    its reading back, the name test on arbitrary paths.
    The [with] block (section "the [with] block": [C17_init], [C17_enter], [C17_with_block], [C17_with_block_refused],
    [C17_exit_nopath], [C17_exit_is_save], [C17_exit_exception], [C17_with_twice], [C17_wl_save], [C17_lines_emit],
    [C17_state_with_block]) is a MODEL of [__init__] / [__enter__] / [__exit__]: facts about the small [wl_file]
    state machine of Model/Save.v ([wl_init], [wl_enter], [wl_append], [wl_exit], [wl_save], [ws_file], [ws_clear]),
    which follow by unfolding its definitions.  Since REVIEW2 (N4) the state machine IS evaluated by the Coq side
    of the correspondence check: case kind [KWith] of Corr/CheckPure.v runs [wl_init], [wl_append] (stale records
    before the block), [wl_enter], [wl_append], [wl_exit] (with and without an exception, once or twice with a foreign
    write to the file in between) and compares the file it predicts with the bytes the library left (suite `save`,
    values of "via": `with`, `with_exc`, `reenter_foreign`); `with_save_other` ([wl_save] to another path inside
    the block) is compared by the Python oracle only, as C11 does for the report
    text.  There is no `enter` operation in [Program.op], so no theorem relates a block to [run].

    Latin-1 (modelling assumption, no theorem): records are [string]s, i.e. lists of [ascii]; every character
    of the file is therefore one byte 0..255 and [encoding="latin_1"] is the identity on them. A record with a
    character outside Latin-1 makes the library raise UnicodeEncodeError (after the old file was already
    replaced by an empty one); such a record cannot be expressed in the model. Paths are POSIX paths. *)
From Robo Require Import Prelude Str Records Params Save SaveProofs.
Local Open Scope string_scope.

(** the record contains no carriage return (ASCII 13) / no line feed (ASCII 10) *)
Definition no_cr (s : string) : Prop := contains_char (ascii_of_nat 13) s = false.
Definition no_lf (s : string) : Prop := contains_char (ascii_of_nat 10) s = false.
(** the eight spellings of the extension *)
Definition gwl_mixes : list string := ["gwl"; "gwL"; "gWl"; "gWL"; "Gwl"; "GwL"; "GWl"; "GWL"].

(** ** content and round trip *)

(** the text written, for all records: each record with its LFs turned into CRLF, CRLF between records *)
Theorem C17_content : forall recs, encode_file recs = join crlf (map translate_lf recs).
Proof. exact sv_encode_join. Qed.
Print Assumptions C17_content.

(** for records without a line feed: exactly the records joined by CRLF *)
Theorem C17_content_crlf : forall recs, Forall no_lf recs -> encode_file recs = join crlf recs.
Proof. exact sv_encode_nolf. Qed.
Print Assumptions C17_content_crlf.

Theorem C17_roundtrip : forall recs, recs <> [] -> Forall no_cr recs -> Forall no_lf recs ->
  decode_file (encode_file recs) = recs.
Proof. exact sv_roundtrip. Qed.
Print Assumptions C17_roundtrip.

(** the carriage-return hypothesis is not needed: a bare CR inside a record is read back as it is *)
Theorem C17_roundtrip_cr : forall recs, recs <> [] -> Forall no_lf recs ->
  decode_file (encode_file recs) = recs.
Proof. exact sv_roundtrip_nolf. Qed.
Print Assumptions C17_roundtrip_cr.

(** the line-feed hypothesis is needed: full statement without it
      forall recs, recs <> [] -> Forall no_cr recs -> decode_file (encode_file recs) = recs
    is false; the record "a\nb" is written as a CRLF b and read back as two records *)
Theorem C17_roundtrip_refuted : exists recs, recs <> [] /\ Forall no_cr recs /\
  decode_file (encode_file recs) <> recs /\
  encode_file recs = "a" ++ crlf ++ "b" ++ crlf ++ "c" /\ decode_file (encode_file recs) = ["a"; "b"; "c"].
Proof. exact sv_roundtrip_refuted. Qed.
Print Assumptions C17_roundtrip_refuted.

(** what is read back in general: the worklist's text split at LF *)
Theorem C17_readback : forall recs,
  decode_file (encode_file recs) = split_on (ascii_of_nat 10) (str_worklist recs).
Proof. exact sv_decode_encode. Qed.
Print Assumptions C17_readback.

(** an empty worklist gives an empty file, which reads back as one empty line *)
Theorem C17_roundtrip_empty : encode_file [] = "" /\ decode_file "" = [""].
Proof. exact sv_roundtrip_empty. Qed.
Print Assumptions C17_roundtrip_empty.

(** nothing follows the last record *)
Theorem C17_no_trailing_break : forall recs r,
  encode_file (recs ++ [r])%list =
  encode_file recs ++ (match recs with [] => "" | _ :: _ => crlf end) ++ translate_lf r.
Proof. exact sv_no_trailing_break. Qed.
Print Assumptions C17_no_trailing_break.

Theorem C17_no_trailing_break_crlf : forall recs r, no_lf r ->
  encode_file (recs ++ [r])%list = encode_file recs ++ (match recs with [] => "" | _ :: _ => crlf end) ++ r.
Proof. exact sv_no_trailing_break_nolf. Qed.
Print Assumptions C17_no_trailing_break_crlf.

(** ** save (definitional: file model) *)

(** an accepted path: the new content replaces whatever was there; a refused path: nothing is written *)
Theorem C17_overwrite : forall path old recs,
  (name_ok path = true -> save path old recs = (Some (encode_file recs), None)) /\
  (name_ok path = false -> save path old recs = (old, Some EReject)).
Proof. exact sv_overwrite. Qed.
Print Assumptions C17_overwrite.

(** repeated saves: no residue of the earlier save nor of any older content *)
Theorem C17_resave : forall path old r1 r2, save path (fst (save path old r1)) r2 = save path old r2.
Proof. exact sv_resave. Qed.
Print Assumptions C17_resave.

(** ** the [with] block

    Every theorem of this section is a fact about the [wl_file] state machine of Model/Save.v, obtained by
    unfolding [wl_enter] / [wl_append] / [wl_exit] (the flag [raised] is ignored by definition).  The state machine
    is tied to the library by the [KWith] cases of the correspondence check (see the header). *)

(** construction and entering start from an empty record list and keep the path *)
Theorem C17_init : forall path, wf_recs (wl_init path) = [] /\ wf_path (wl_init path) = path.
Proof. exact sv_init. Qed.
Print Assumptions C17_init.

Theorem C17_enter : forall w, wf_recs (wl_enter w) = [] /\ wf_path (wl_enter w) = wf_path w.
Proof. exact sv_enter. Qed.
Print Assumptions C17_enter.

(** leaving the block writes exactly the records appended inside it, whatever the worklist held before
    entering, whatever the file held, and whether or not an exception leaves the block *)
Theorem C17_with_block : forall w p rs raised old, wf_path w = Some p -> name_ok p = true ->
  wl_exit (wl_append (wl_enter w) rs) raised old = (Some (encode_file rs), None).
Proof. exact sv_with_block. Qed.
Print Assumptions C17_with_block.

(** a path without .gwl: leaving the block raises and the file is untouched *)
Theorem C17_with_block_refused : forall w p rs raised old, wf_path w = Some p -> name_ok p = false ->
  wl_exit (wl_append (wl_enter w) rs) raised old = (old, Some EReject).
Proof. exact sv_with_block_refused. Qed.
Print Assumptions C17_with_block_refused.

(** no path given at construction: leaving the block touches nothing and raises nothing *)
Theorem C17_exit_nopath : forall w raised old, wf_path w = None -> wl_exit w raised old = (old, None).
Proof. exact sv_exit_nopath. Qed.
Print Assumptions C17_exit_nopath.

(** leaving = save to the path given at construction *)
Theorem C17_exit_is_save : forall w p raised old, wf_path w = Some p -> wl_exit w raised old = wl_save w p old.
Proof. exact sv_exit_is_save. Qed.
Print Assumptions C17_exit_is_save.

Theorem C17_exit_exception : forall w old, wl_exit w true old = wl_exit w false old.
Proof. exact sv_exit_exception. Qed.
Print Assumptions C17_exit_exception.

(** the same object used for two blocks in a row: the second file has the second block's records only *)
Theorem C17_with_twice : forall w p r1 r2 x1 x2 old, wf_path w = Some p -> name_ok p = true ->
  let w1 := wl_append (wl_enter w) r1 in
  let f1 := fst (wl_exit w1 x1 old) in
  wl_exit (wl_append (wl_enter w1) r2) x2 f1 = (Some (encode_file r2), None).
Proof. exact sv_with_twice. Qed.
Print Assumptions C17_with_twice.

(** a [save] at any moment writes the records held at that moment *)
Theorem C17_wl_save : forall w p old, name_ok p = true ->
  wl_save w p old = (Some (encode_file (wf_recs w)), None).
Proof. exact sv_wl_save. Qed.
Print Assumptions C17_wl_save.

(** the tie to the record-level worklist state: its lines are the rendered records; emitting appends their
    renderings; a block on that state writes the renderings of the records emitted inside *)
Theorem C17_lines_emit : forall w rs, ws_lines (emit w rs) = (ws_lines w ++ map render rs)%list.
Proof. exact sv_ws_emit. Qed.
Print Assumptions C17_lines_emit.

Theorem C17_state_with_block : forall p w rs raised old, name_ok p = true ->
  wl_exit (ws_file (Some p) (emit (ws_clear w) rs)) raised old = (Some (encode_file (map render rs)), None).
Proof. exact sv_ws_with_block. Qed.
Print Assumptions C17_state_with_block.

(** ** the file-name check *)

(** exact characterisation for arbitrary paths: the last path component is a non-empty stem followed by a dot
    and one of the spellings of gwl (the stem may itself contain or end in dots: "a..gwl", "..gwl" are accepted
    by [Path.suffix]; ".gwl", "a.gwl.", "dir/.gwl", "x.gwl/out" are not) *)
Theorem C17_name : forall path,
  name_ok path = true <->
  exists stem x, stem <> "" /\ basename path = stem ++ "." ++ x /\ lower x = "gwl".
Proof. exact sv_name_iff. Qed.
Print Assumptions C17_name.

(** the last component: what is left of the path after a directory prefix ... *)
Theorem C17_basename_dir : forall dir name,
  contains_char "/"%char name = false -> name <> "" -> name <> "." ->
  basename (dir ++ "/" ++ name) = name /\ basename name = name.
Proof. exact sv_basename_dir_both. Qed.
Print Assumptions C17_basename_dir.

(** ... trailing "/", "/." and empty components are skipped ... *)
Theorem C17_basename_skip : forall dir q, path_parts q = [] -> basename (dir ++ "/" ++ q) = basename dir.
Proof. exact sv_basename_skip. Qed.
Print Assumptions C17_basename_skip.

(** ... and it is a single component *)
Theorem C17_basename_component : forall p,
  contains_char "/"%char (basename p) = false /\ basename p <> "." /\ (basename p = "" <-> path_parts p = []).
Proof. exact sv_basename_component. Qed.
Print Assumptions C17_basename_component.

(** on a name without "/" (what the correspondence harness passes) the check is the check on the name *)
Theorem C17_name_plain : forall name, contains_char "/"%char name = false -> name_ok name = file_ok name.
Proof. exact sv_name_plain. Qed.
Print Assumptions C17_name_plain.

(** only the last component counts: a directory called x.gwl does not help, a dot in a directory does no harm *)
Theorem C17_name_dir : forall dir name, contains_char "/"%char name = false -> name <> "" -> name <> "." ->
  name_ok (dir ++ "/" ++ name) = file_ok name.
Proof. exact sv_name_dir. Qed.
Print Assumptions C17_name_dir.

Theorem C17_name_spellings : forall x, lower x = "gwl" <-> In x gwl_mixes.
Proof. exact sv_lower_gwl. Qed.
Print Assumptions C17_name_spellings.

Theorem C17_name_gwl : forall dir stem x, stem <> "" -> contains_char "/"%char stem = false -> lower x = "gwl" ->
  name_ok (dir ++ "/" ++ stem ++ "." ++ x) = true /\ name_ok (stem ++ "." ++ x) = true.
Proof. exact sv_name_path_gwl. Qed.
Print Assumptions C17_name_gwl.

(** one component: only the part after the last dot counts *)
Theorem C17_name_ext : forall pre x, pre <> "" -> contains_char "."%char x = false ->
  file_ok (pre ++ "." ++ x) = String.eqb (lower x) "gwl".
Proof. exact sv_file_ext. Qed.
Print Assumptions C17_name_ext.

(** no dot after the first character (this includes the hidden file ".gwl" and the empty name) *)
Theorem C17_name_nodot : forall name, contains_char "."%char (str_tail name) = false -> file_ok name = false.
Proof. exact sv_file_nodot. Qed.
Print Assumptions C17_name_nodot.

(** a further extension after .gwl *)
Theorem C17_name_double : forall base x, contains_char "."%char x = false -> lower x <> "gwl" ->
  file_ok (base ++ ".gwl" ++ "." ++ x) = false.
Proof. exact sv_file_double. Qed.
Print Assumptions C17_name_double.

(** [Path.suffix] itself: the three cases cover every name *)
Theorem C17_suffix : forall pre x,
  (pre <> "" -> x <> "" -> contains_char "."%char x = false -> suffix (pre ++ String "."%char x) = String "."%char x) /\
  suffix (pre ++ ".") = "" /\
  (contains_char "."%char (str_tail pre) = false -> suffix pre = "").
Proof. exact sv_suffix_spec. Qed.
Print Assumptions C17_suffix.

Theorem C17_suffix_cases : forall name, contains_char "."%char (str_tail name) = false \/
  exists pre x, pre <> "" /\ name = pre ++ String "."%char x /\ contains_char "."%char x = false.
Proof. exact sv_name_shape. Qed.
Print Assumptions C17_suffix_cases.

(** ** string conversion *)

(** definitional: [__str__] = [__repr__] = "\n".join(self) *)
Theorem C17_str : forall recs, str_worklist recs = join lf recs.
Proof. exact sv_str. Qed.
Print Assumptions C17_str.

Theorem C17_str_split : forall recs, recs <> [] -> Forall no_lf recs ->
  split_on (ascii_of_nat 10) (str_worklist recs) = recs.
Proof. exact sv_str_split. Qed.
Print Assumptions C17_str_split.

(** ** non-vacuity *)

Example C17_example :
  let recs := ["A;Src;;;1;;10.00;;;"; "D;Dst;;;1;;10.00;;;"; "W1;"; ""; "B;"] in
  encode_file recs =
    "A;Src;;;1;;10.00;;;" ++ crlf ++ "D;Dst;;;1;;10.00;;;" ++ crlf ++ "W1;" ++ crlf ++ crlf ++ "B;" /\
  decode_file (encode_file recs) = recs /\
  split_on (ascii_of_nat 10) (str_worklist recs) = recs /\
  save "out/plan.GwL" (Some "old content, longer than the new one ..........................................")
       recs = (Some (encode_file recs), None) /\
  save "plan.gwl.txt" (Some "old") recs = (Some "old", Some EReject) /\
  save ".gwl" None recs = (None, Some EReject) /\
  save "dir/.gwl" None recs = (None, Some EReject) /\
  save "x.gwl/out" None recs = (None, Some EReject) /\
  save "dir.d/out.gwl" None recs = (Some (encode_file recs), None).
Proof. vm_compute. repeat split. Qed.

(** the name test on the paths checked against Python 3.12 [Path(p).suffix.lower() == ".gwl"] *)
Example C17_example_paths :
  map name_ok ["dir/.gwl"; "x.gwl/out"; "dir.d/out.gwl"; "a.gwl."; "a..gwl"; "..gwl"; ".gwl"; "a.gwl"; "a.GwL";
               "...gwl"; "dir/a.gwl/"; "a.gwl/."; "a.gwl/.."; "./a.gwl"; ""; "/"; "."; ".."; "a."; "x//b.gwl";
               ".a.gwl"; " .gwl"; "a. gwl"; "a.gwl "; ".gwl.gwl"; "..gwl."; "a.b.gwl"]
  = [false; false; true; false; true; true; false; true; true;
     true; true; true; false; true; false; false; false; false; false; true;
     true; true; false; false; true; false; true] /\
  map basename ["dir/.gwl"; "x.gwl/out"; "dir/a.gwl/"; "a.gwl/."; "a.gwl/.."; "/"; "x//b.gwl"]
  = [".gwl"; "out"; "a.gwl"; "a.gwl"; ".."; ""; "b.gwl"] /\
  map suffix ["a.gwl."; "a..gwl"; ".gwl"; "a.tar.GwL"; "a"] = [""; ".gwl"; ""; ".GwL"; ""].
Proof. vm_compute. repeat split. Qed.

Example C17_example_hyps :
  Forall no_cr ["A;Src;;;1;;10.00;;;"; ""; "B;"] /\ Forall no_lf ["A;Src;;;1;;10.00;;;"; ""; "B;"].
Proof. split; repeat constructor. Qed.

(** a [with] block on an object that already held a record, file already present and longer, exception or not *)
Example C17_example_with :
  let w := wl_append (wl_init (Some "run/out.gwl")) ["C;stale"] in
  let old := Some "OLD;OLD;OLD;OLD;OLD;OLD;OLD;OLD" in
  wf_recs (wl_enter w) = [] /\
  wl_exit (wl_append (wl_enter w) ["W1;"; "B;"]) false old = (Some ("W1;" ++ crlf ++ "B;"), None) /\
  wl_exit (wl_append (wl_enter w) ["W1;"; "B;"]) true old = (Some ("W1;" ++ crlf ++ "B;"), None) /\
  wl_exit (wl_append (wl_enter (wl_init None)) ["F;"]) false old = (old, None) /\
  wl_exit (wl_append (wl_enter (wl_init (Some "out.txt"))) ["F;"]) false None = (None, Some EReject) /\
  save "out.gwl" (fst (save "out.gwl" old ["C;long long long"; "C;long long long"])) ["B;"] = (Some "B;", None).
Proof. vm_compute. repeat split. Qed.

(** a record containing CRLF: the LF is translated once more, the record is read back as two, the first
    keeping its CR (library: file a CR CR LF b CR LF c, read back ["a\r"; "b"; "c"]) *)
Example C17_example_cr :
  encode_file ["a" ++ crlf ++ "b"; "c"] = "a" ++ String (ascii_of_nat 13) crlf ++ "b" ++ crlf ++ "c" /\
  decode_file (encode_file ["a" ++ crlf ++ "b"; "c"]) = ["a" ++ String (ascii_of_nat 13) ""; "b"; "c"].
Proof. vm_compute. split; reflexivity. Qed.

(** bare CRs are kept (library: file a CR b CR LF c CR CR LF CR d, read back unchanged) *)
Example C17_example_bare_cr :
  let c := String (ascii_of_nat 13) "" in
  decode_file (encode_file ["a" ++ c ++ "b"; "c" ++ c; c ++ "d"]) = ["a" ++ c ++ "b"; "c" ++ c; c ++ "d"].
Proof. vm_compute. reflexivity. Qed.
