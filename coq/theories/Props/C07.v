(** C07 — a transfer of volumes[i] from source_wells[i] to destination_wells[i] emits aspirate/dispense
    pairs whose flows per (source well, destination well) equal the requested ones, independent of the
    order of the triples and of the partition_by mode; every aspirate record is immediately followed
    by a dispense record with identical volume, liquid class and tip mask and then by exactly the
    requested tip action; a break record closes every column group in which a volume had to be split;
    incompatible argument lengths, negative volumes and unknown wells are rejected without any effect.
    Statements only; proofs live in Proofs/PlanProofs.v. *)
From Robo Require Import Prelude Str Wells Utils Labware Tips Records Partition Params Worklist
  PartitionProofs LabwareProofs PlanProofs.
From Coq Require Import Permutation.

Local Open Scope Q_scope.

(* ------------------------------------------------------------------ definitions used below *)

(** the (source, destination, volume) of the steps of a plan, in order *)
Definition steps_of (acts : list action) : list triple :=
  flat_map (fun a => match a with Step s d v => [(s, d, v)] | Commit => [] end) acts.

Definition sd_eqb (s d : string) (t : triple) : bool :=
  String.eqb (fst (fst t)) s && String.eqb (snd (fst t)) d.

(** total volume listed for the pair (s, d) *)
Definition flow (s d : string) (l : list triple) : Q := Qsum (map snd (filter (sd_eqb s d) l)).

(** the steps one triple gives rise to, in order *)
Definition triple_steps (a : bool) (m : Q) (t : triple) : list triple :=
  flat_map (fun v => if Qltb 0 v then [(fst (fst t), snd (fst t), v)] else []) (vol_list a m (snd t)).

(** number of steps planned for a volume [v] with auto_split *)
Definition steps_for (m v : Q) : nat :=
  if Qltb 0 v then Z.to_nat (Z.max 1 (Qceiling (v / m))) else 0%nat.

(** the volume of this triple had to be split *)
Definition is_split (a : bool) (m : Q) (t : triple) : Prop := (2 <= length (vol_list a m (snd t)))%nat.

(** configuration of a worklist (everything but the records) *)
Definition same_cfg (w w' : wstate) : Prop :=
  w_max w' = w_max w /\ w_autosplit w' = w_autosplit w /\ w_diti w' = w_diti w /\ w_dev w' = w_dev w.

(** name and geometry of every labware of the state *)
Definition lw_frames (s : state) : list (string * geom) :=
  map (fun L => (lw_name L, lw_geom L)) (st_lw s).

(** pass-through fields of an A/D record are the keyword arguments *)
Definition kw_fields (k : kwargs) (f : adfields) : Prop :=
  k_liquid_class k = PStr (ad_liquid_class f) /\ tip_mask (k_tip k) = Ok (ad_tip f) /\
  k_rack_id k = PStr (ad_rack_id f) /\ k_tube_id k = PStr (ad_tube_id f) /\
  k_rack_type k = PStr (ad_rack_type f) /\ k_forced k = PStr (ad_forced_rack_type f).

(** the records of the requested tip action: W1-W4, "W;" in DiTi mode, "F;" for flush, nothing for
    reuse; the deprecated None is a flush on the Fluent and nothing on the EVO *)
Definition tip_spec (diti : bool) (dev : device) (ws : scheme) (tip : list srec) : Prop :=
  match ws with
  | SReuse => tip = []
  | SFlush => tip = [RF]
  | SNone => tip = match dev with Fluent => [RF] | _ => [] end
  | SInt z => if diti then tip = [RW None]
              else (1 <= z <= 4)%Z /\ tip = [RW (Some (Z.to_nat z))]
  | SOther => diti = true /\ tip = [RW None]
  end.

(** the records of one executed step *)
Definition pair_records (Ls Ld : labware) (w : wstate) (sw dw : string) (v : Q) (ws : scheme)
    (kw : kwargs) (rs : list srec) : Prop :=
  exists pa pd fa fd tip,
    rs = ([RA fa; RD fd] ++ tip)%list /\
    device_position (w_dev w) (lw_geom Ls) sw = Ok pa /\
    device_position (w_dev w) (lw_geom Ld) dw = Ok pd /\
    ad_rack_label fa = lw_name Ls /\ ad_position fa = Z.of_nat pa /\
    ad_rack_label fd = lw_name Ld /\ ad_position fd = Z.of_nat pd /\
    ad_volume fa = v /\ ad_volume fd = v /\
    ad_liquid_class fd = ad_liquid_class fa /\ ad_tip fd = ad_tip fa /\
    kw_fields kw fa /\ kw_fields kw fd /\
    v <= w_max w /\
    tip_spec (w_diti w) (w_dev w) ws tip.

(** what can have been written when a step fails: a prefix of [A; D] *)
Definition step_prefix (v : Q) (rs : list srec) : Prop :=
  rs = [] \/
  (exists fa, rs = [RA fa] /\ ad_volume fa = v) \/
  (exists fa fd, rs = [RA fa; RD fd] /\ ad_volume fa = v /\ ad_volume fd = v /\
                 ad_liquid_class fd = ad_liquid_class fa /\ ad_tip fd = ad_tip fa).

(** the records of one action, relative to the labware and worklist configuration of state [s] *)
Definition act_records (s : state) (ks kd : nat) (ws : scheme) (kw : kwargs) (a : action)
    (rs : list srec) : Prop :=
  match a with
  | Commit => rs = [RB]
  | Step sw dw v =>
      exists Ls Ld, nth_error (st_lw s) ks = Some Ls /\ nth_error (st_lw s) kd = Some Ld /\
                    pair_records Ls Ld (st_wl s) sw dw v ws kw rs
  end.

(** the argument lists of [transfer]: flattened column-major, singletons broadcast *)
Definition t_n (swells dwells : arr string) (vols : arr Q) : nat :=
  Nat.max (length (flattenF swells)) (Nat.max (length (flattenF dwells)) (length (flattenF vols))).
Definition t_src (swells dwells : arr string) (vols : arr Q) : list string :=
  broadcast (flattenF swells) (t_n swells dwells vols).
Definition t_dst (swells dwells : arr string) (vols : arr Q) : list string :=
  broadcast (flattenF dwells) (t_n swells dwells vols).
Definition t_vol (swells dwells : arr string) (vols : arr Q) : list Q :=
  broadcast (flattenF vols) (t_n swells dwells vols).
Definition t_triples (swells dwells : arr string) (vols : arr Q) : list triple :=
  zip (zip (t_src swells dwells vols) (t_dst swells dwells vols)) (t_vol swells dwells vols).

(** arguments [transfer] refuses *)
Definition bad_transfer (s : state) (ks kd : nat) (swells dwells : arr string) (vols : arr Q)
    (pb : string) : Prop :=
  length (t_src swells dwells vols) <> length (t_dst swells dwells vols) \/
  length (t_dst swells dwells vols) <> length (t_vol swells dwells vols) \/
  (exists v, In v (t_vol swells dwells vols) /\ v < 0) \/
  (exists L w, nth_error (st_lw s) ks = Some L /\ In w (t_src swells dwells vols) /\ lw_index L w = None) \/
  (exists L w, nth_error (st_lw s) kd = Some L /\ In w (t_dst swells dwells vols) /\ lw_index L w = None) \/
  nth_error (st_lw s) ks = None \/ nth_error (st_lw s) kd = None \/
  (pb <> "auto"%string /\ pb <> "source"%string /\ pb <> "destination"%string).

(* ------------------------------------------------------------------ the plan *)

(** the plan is made group by group (by definition) *)
Theorem C07_group_structure : forall (autosplit : bool) (m : Q) (mode : pmode) (triples : list triple),
  plan autosplit m mode triples
  = flat_map (group_plan autosplit m) (partition_by_column mode triples).
Proof. exact (fun a m mode triples => eq_refl). Qed.
Print Assumptions C07_group_structure.

(** the steps of one group plan are exactly those of the triples of that group (as a multiset) ... *)
Theorem C07_group_steps : forall (autosplit : bool) (m : Q) (g : list triple),
  Permutation (steps_of (group_plan autosplit m g)) (flat_map (triple_steps autosplit m) g).
Proof. exact group_steps_perm. Qed.
Print Assumptions C07_group_steps.

(** ... in particular every step of a group plan stems from a triple of that group *)
Theorem C07_group_step_origin : forall (autosplit : bool) (m : Q) (g : list triple) (s d : string) (v : Q),
  In (Step s d v) (group_plan autosplit m g) <->
  exists v0, In (s, d, v0) g /\ In v (vol_list autosplit m v0) /\ 0 < v.
Proof. exact group_step_origin. Qed.
Print Assumptions C07_group_step_origin.

(** the multiset of planned steps depends only on the multiset of triples: not on their order, not on
    the partition_by mode (no hypothesis on the volumes) *)
Theorem C07_steps_perm : forall (autosplit : bool) (m : Q) (mode mode' : pmode) (triples triples' : list triple),
  Permutation triples triples' ->
  Permutation (steps_of (plan autosplit m mode triples)) (steps_of (plan autosplit m mode' triples')).
Proof. exact plan_steps_perm_any. Qed.
Print Assumptions C07_steps_perm.

(** every planned step is positive, at most max_volume with auto_split, the unsplit volume without,
    and its (source, destination) is that of an input triple *)
Theorem C07_steps_positive : forall (autosplit : bool) (m : Q) (mode : pmode) (triples : list triple)
    (s d : string) (v : Q),
  0 < m -> In (Step s d v) (plan autosplit m mode triples) ->
  0 < v /\ (autosplit = true -> v <= m) /\ (autosplit = false -> In (s, d, v) triples) /\
  exists v0, In (s, d, v0) triples.
Proof. exact plan_steps_positive. Qed.
Print Assumptions C07_steps_positive.

(** the planned flow per (source, destination) equals the requested one *)
Theorem C07_flows : forall (autosplit : bool) (m : Q) (mode : pmode) (triples : list triple) (s d : string),
  0 < m -> Forall (fun t => 0 <= snd t) triples ->
  flow s d (steps_of (plan autosplit m mode triples)) == flow s d triples.
Proof. exact plan_flows. Qed.
Print Assumptions C07_flows.

Theorem C07_flows_perm : forall (autosplit : bool) (m : Q) (mode : pmode) (triples triples' : list triple)
    (s d : string),
  0 < m -> Forall (fun t => 0 <= snd t) triples -> Permutation triples triples' ->
  flow s d (steps_of (plan autosplit m mode triples)) == flow s d (steps_of (plan autosplit m mode triples')).
Proof. exact plan_flows_perm. Qed.
Print Assumptions C07_flows_perm.

Theorem C07_flows_mode : forall (autosplit : bool) (m : Q) (triples : list triple) (s d : string),
  0 < m -> Forall (fun t => 0 <= snd t) triples ->
  flow s d (steps_of (plan autosplit m BySource triples))
  == flow s d (steps_of (plan autosplit m ByDestination triples)).
Proof. exact plan_flows_mode. Qed.
Print Assumptions C07_flows_mode.

(** number of aspirate/dispense pairs *)
Theorem C07_step_count : forall (m : Q) (mode : pmode) (triples : list triple),
  0 < m ->
  n_steps (plan true m mode triples) = list_sum (map (fun t => steps_for m (snd t)) triples).
Proof. exact plan_step_count_split. Qed.
Print Assumptions C07_step_count.

Theorem C07_step_count_nosplit : forall (m : Q) (mode : pmode) (triples : list triple),
  n_steps (plan false m mode triples) = length (filter (fun t => Qltb 0 (snd t)) triples).
Proof. exact plan_step_count_nosplit. Qed.
Print Assumptions C07_step_count_nosplit.

(** a group plan contains a break iff a volume of the group had to be split ... *)
Theorem C07_commits : forall (autosplit : bool) (m : Q) (g : list triple),
  In Commit (group_plan autosplit m g) <-> exists t, In t g /\ is_split autosplit m t.
Proof. exact group_commit_iff. Qed.
Print Assumptions C07_commits.

(** ... and then a break closes the group *)
Theorem C07_commit_last : forall (autosplit : bool) (m : Q) (g : list triple),
  (exists t, In t g /\ is_split autosplit m t) ->
  exists l, group_plan autosplit m g = (l ++ [Commit])%list.
Proof. exact group_commit_last. Qed.
Print Assumptions C07_commit_last.

(** a plan without any split volume contains no break *)
Theorem C07_commits_plan : forall (autosplit : bool) (m : Q) (mode : pmode) (triples : list triple),
  In Commit (plan autosplit m mode triples) <-> exists t, In t triples /\ is_split autosplit m t.
Proof. exact plan_commit_iff. Qed.
Print Assumptions C07_commits_plan.

Theorem C07_no_commit_nosplit : forall (m : Q) (mode : pmode) (triples : list triple),
  ~ In Commit (plan false m mode triples).
Proof. exact plan_no_commit_nosplit. Qed.
Print Assumptions C07_no_commit_nosplit.

(** with auto_split, "had to be split" means "exceeds max_volume" *)
Theorem C07_split_iff : forall (m : Q) (t : triple),
  0 < m -> 0 <= snd t -> (is_split true m t <-> m < snd t).
Proof. exact is_split_iff. Qed.
Print Assumptions C07_split_iff.

(* ------------------------------------------------------------------ the records *)

(** one step: on success exactly [A; D] ++ tip action was appended, A and D agree in volume, liquid
    class, tip mask and all pass-through fields, the rack labels are the labware names and the
    positions the device positions of the wells; on failure only a prefix of [A; D] was appended.
    In both cases the labware names / geometries and the worklist configuration are unchanged. *)
Theorem C07_pairing : forall (s : state) (ks kd : nat) (sw dw : string) (v : Q) (ws : scheme) (kw : kwargs)
    (s' : state) (e : option err),
  0 < v ->
  exec_step s ks kd sw dw v ws kw = (s', e) ->
  lw_frames s' = lw_frames s /\ same_cfg (st_wl s) (st_wl s') /\
  exists rs, w_recs (st_wl s') = (w_recs (st_wl s) ++ rs)%list /\
    match e with
    | None => exists Ls Ld, nth_error (st_lw s) ks = Some Ls /\ nth_error (st_lw s) kd = Some Ld /\
                            pair_records Ls Ld (st_wl s) sw dw v ws kw rs
    | Some _ => step_prefix v rs
    end.
Proof. exact exec_step_records. Qed.
Print Assumptions C07_pairing.

(** a successful run of actions appends, in order, the records of each step and one break per Commit *)
Theorem C07_exec_records : forall (acts : list action) (s : state) (ks kd : nat) (ws : scheme) (kw : kwargs)
    (s' : state),
  (forall sw dw v, In (Step sw dw v) acts -> 0 < v) ->
  exec s ks kd acts ws kw = (s', None) ->
  lw_frames s' = lw_frames s /\ same_cfg (st_wl s) (st_wl s') /\
  exists rss, w_recs (st_wl s') = (w_recs (st_wl s) ++ concat rss)%list /\
              Forall2 (act_records s ks kd ws kw) acts rss.
Proof. exact exec_records. Qed.
Print Assumptions C07_exec_records.

(** an accepted transfer appends the comment records and then the records of its plan *)
Theorem C07_transfer_records : forall (s : state) (ks : nat) (swells : arr string) (kd : nat)
    (dwells : arr string) (vols : arr Q) (label : option string) (ws : scheme) (pb : string)
    (kw : kwargs) (s' : state),
  transfer s ks swells kd dwells vols label ws pb kw = (s', None) ->
  exists Ls Ld mode w rss,
    nth_error (st_lw s) ks = Some Ls /\ nth_error (st_lw s) kd = Some Ld /\
    optimize_partition_by (is_trough (lw_geom Ls)) (is_trough (lw_geom Ld)) pb = Ok mode /\
    comment (st_wl s) label = (w, None) /\
    w_recs (st_wl s') = (w_recs w ++ concat rss)%list /\
    Forall2 (act_records s ks kd ws kw)
            (plan (w_autosplit (st_wl s)) (w_max (st_wl s)) mode (t_triples swells dwells vols)) rss.
Proof. exact transfer_records. Qed.
Print Assumptions C07_transfer_records.

(* ------------------------------------------------------------------ rejected calls *)

Theorem C07_broadcast_length : forall (A : Type) (l : list A) (n : nat),
  length (broadcast l n) = if (length l =? 1)%nat then n else length l.
Proof. exact @broadcast_length. Qed.
Print Assumptions C07_broadcast_length.

(** incompatible lengths, a negative volume, an unknown well or labware, an unknown partition_by:
    rejected, state completely unchanged *)
Theorem C07_reject : forall (s : state) (ks : nat) (swells : arr string) (kd : nat) (dwells : arr string)
    (vols : arr Q) (label : option string) (ws : scheme) (pb : string) (kw : kwargs),
  w_dev (st_wl s) <> BaseDev -> bad_transfer s ks kd swells dwells vols pb ->
  transfer s ks swells kd dwells vols label ws pb kw = (s, Some EReject).
Proof. exact transfer_reject. Qed.
Print Assumptions C07_reject.

(** the generic base worklist has no transfer *)
Theorem C07_reject_base : forall (s : state) (ks : nat) (swells : arr string) (kd : nat)
    (dwells : arr string) (vols : arr Q) (label : option string) (ws : scheme) (pb : string) (kw : kwargs),
  w_dev (st_wl s) = BaseDev ->
  transfer s ks swells kd dwells vols label ws pb kw = (s, Some ECompat).
Proof. exact transfer_compat. Qed.
Print Assumptions C07_reject_base.

(* ------------------------------------------------------------------ non-vacuity *)

(** three triples in two column groups; 2000 is split into three steps: a break after the first pass
    (two steps), none after the single-step second pass, one closing the group; the unsplit second
    group has no break *)
Example C07_example_plan :
  let triples := [("A01", "B01", 2000); ("B01", "B02", 100); ("A02", "C01", 50)]%string in
  plan true 950 BySource triples
  = [Step "A01" "B01" 667; Step "B01" "B02" 100; Commit;
     Step "A01" "B01" 667; Step "A01" "B01" 666; Commit;
     Step "A02" "C01" 50]%string /\
  plan false 950 BySource triples
  = [Step "A01" "B01" 2000; Step "B01" "B02" 100; Step "A02" "C01" 50]%string /\
  n_steps (plan true 950 BySource triples) = 5%nat /\
  list_sum (map (fun t => steps_for 950 (snd t)) triples) = 5%nat /\
  forallb (fun t => Qle_bool 0 (snd t)) triples = true.
Proof. vm_compute. repeat split. Qed.

(** by destination the same steps come in another order; a zero volume emits nothing *)
Example C07_example_modes :
  let triples := [("A01", "B02", 30); ("B01", "A01", 0); ("A02", "A01", 20); ("A01", "B02", 5)]%string in
  plan true 25 BySource triples
  = [Step "A01" "B02" 15; Step "A01" "B02" 5; Commit; Step "A01" "B02" 15; Commit;
     Step "A02" "A01" 20]%string /\
  plan true 25 ByDestination triples
  = [Step "A02" "A01" 20; Step "A01" "B02" 15; Step "A01" "B02" 5; Commit;
     Step "A01" "B02" 15; Commit]%string /\
  Qeq_bool (flow "A01" "B02" (steps_of (plan true 25 ByDestination triples))) 35 = true /\
  Qeq_bool (flow "A01" "B02" triples) 35 = true.
Proof. vm_compute. repeat split. Qed.

Definition ex_state (mx : Q) (autosplit : bool) : state :=
  {| st_lw := [ex_trough; ex_plate];
     st_wl := {| w_recs := []; w_max := mx; w_autosplit := autosplit; w_diti := false; w_dev := Evo |} |}.

(** one step and a whole transfer (trough -> plate, max_volume 15, "auto" = by destination) *)
Example C07_example_records :
  map render (w_recs (st_wl (fst (exec_step (ex_state 950 true) 0 1 "A01" "B02" 20 (SInt 1) kw_default))))
  = ["A;trough;;;1;;20.00;;;;"; "D;plate;;;4;;20.00;;;;"; "W1;"]%string /\
  (let r := transfer (ex_state 15 true) 0 (A0 "A01"%string) 1 (A1 ["A01"; "B01"; "A02"]%string)
                     (A1 [40; 10; 5]) None (SInt 1) "auto" kw_default in
   snd r = None /\
   map render (w_recs (st_wl (fst r)))
   = ["A;trough;;;1;;14.00;;;;"; "D;plate;;;1;;14.00;;;;"; "W1;";
      "A;trough;;;1;;10.00;;;;"; "D;plate;;;2;;10.00;;;;"; "W1;"; "B;";
      "A;trough;;;1;;14.00;;;;"; "D;plate;;;1;;14.00;;;;"; "W1;";
      "A;trough;;;1;;12.00;;;;"; "D;plate;;;1;;12.00;;;;"; "W1;"; "B;";
      "A;trough;;;1;;5.00;;;;"; "D;plate;;;3;;5.00;;;;"; "W1;"]%string).
Proof. vm_compute. repeat split. Qed.

(** rejected: two volumes for three wells; a negative volume; an unknown well *)
Example C07_example_reject :
  let s := ex_state 15 true in
  transfer s 0 (A0 "A01"%string) 1 (A1 ["A01"; "B01"; "A02"]%string) (A1 [40; 10]) None (SInt 1) "auto"
           kw_default = (s, Some EReject) /\
  transfer s 0 (A0 "A01"%string) 1 (A1 ["A01"; "B01"]%string) (A1 [40; -(1)]) None (SInt 1) "auto"
           kw_default = (s, Some EReject) /\
  transfer s 0 (A0 "A01"%string) 1 (A1 ["A01"; "C01"]%string) (A1 [4; 1]) None (SInt 1) "auto"
           kw_default = (s, Some EReject) /\
  length (t_dst (A0 "A01"%string) (A1 ["A01"; "B01"; "A02"]%string) (A1 [40; 10])) = 3%nat /\
  length (t_vol (A0 "A01"%string) (A1 ["A01"; "B01"; "A02"]%string) (A1 [40; 10])) = 2%nat /\
  lw_index ex_plate "C01" = None.
Proof. vm_compute. repeat split. Qed.
