(** C04 — the ledger: after any sequence of accepted additions and removals each real well holds its
    initial volume plus everything added minus everything removed, wells not addressed are unchanged; in a
    trough every virtual-row id of a column addresses the same real well; array arguments pair wells and
    volumes element-wise in column-major order, a scalar volume applies to every well, a well listed
    several times is charged once per occurrence.  Statements only; proofs live in Proofs/LabwareProofs.v.

    Definitions used.  Spec/Invariants.v: [event] = (flat index of the real well, signed volume),
    [delta evs j] = sum of the volumes of the events on well [j]; [wf_shape], [wf_geom].
    Proofs/LabwareProofs.v:
      [events_of L wv]  one event [(i, v)] per pair [(w, XQ v)] of [wv] with [lw_index L w = Some i], in
                        order; [None] if some well is unknown or some volume is not a finite number;
      [neg_events evs]  the same events with negated volumes;
      [pairs_of wells vols] = [zip (flattenF wells) (broadcast (flattenF vols) (length (flattenF wells)))];
      [lwcall] = [CAdd wells vols label comps | CRemove wells vols label], [do_call], and
      [run_calls L cs] which runs the calls in order and collects their outcomes (like [Program.run]);
      [call_events] / [history_events L cs]: the events of one call / of all calls, concatenated. *)
From Robo Require Import Prelude Str Wells Utils Labware Invariants LabwareProofs.
#[local] Open Scope Q_scope.

(** accepted [add]: wells and volumes are paired element-wise after column-major flattening ([flattenF])
    and scalar broadcasting ([broadcast]); one event per occurrence; every well changes by exactly the sum
    of its events *)
Theorem C04_add_ledger : forall L wells vols label comps L',
  add L wells vols label comps = (L', None) -> wf_shape L ->
  exists evs,
    events_of L (zip (flattenF wells) (broadcast (flattenF vols) (length (flattenF wells)))) = Some evs /\
    length (lw_vols L') = length (lw_vols L) /\
    forall j, nth j (lw_vols L') 0 == nth j (lw_vols L) 0 + delta evs j.
Proof. exact add_ledger. Qed.
Print Assumptions C04_add_ledger.

Theorem C04_remove_ledger : forall L wells vols label L',
  remove L wells vols label = (L', None) -> wf_shape L ->
  exists evs,
    events_of L (zip (flattenF wells) (broadcast (flattenF vols) (length (flattenF wells)))) = Some evs /\
    length (lw_vols L') = length (lw_vols L) /\
    forall j, nth j (lw_vols L') 0 == nth j (lw_vols L) 0 + delta (neg_events evs) j.
Proof. exact remove_ledger. Qed.
Print Assumptions C04_remove_ledger.

(** frame: a real well that no given id addresses keeps its volume exactly — for every call, accepted or
    rejected, and without any well-formedness hypothesis *)
Theorem C04_frame_add : forall L wells vols label comps j,
  (forall w, In w (flattenF wells) -> lw_index L w <> Some j) ->
  nth j (lw_vols (fst (add L wells vols label comps))) 0 = nth j (lw_vols L) 0.
Proof. exact add_frame. Qed.
Print Assumptions C04_frame_add.

Theorem C04_frame_remove : forall L wells vols label j,
  (forall w, In w (flattenF wells) -> lw_index L w <> Some j) ->
  nth j (lw_vols (fst (remove L wells vols label))) 0 = nth j (lw_vols L) 0.
Proof. exact remove_frame. Qed.
Print Assumptions C04_frame_remove.

(** a well without events has a zero balance *)
Theorem C04_delta_untouched : forall evs j,
  (forall i v, In (i, v) evs -> i <> j) -> delta evs j = 0.
Proof. exact delta_notin. Qed.
Print Assumptions C04_delta_untouched.

(** any sequence of accepted additions and removals: final = initial + sum of all deltas *)
Theorem C04_history_ledger : forall cs L L' es,
  wf_shape L -> run_calls L cs = (L', es) -> (forall e, In e es -> e = None) ->
  exists evs, history_events L cs = Some evs /\
    length (lw_vols L') = length (lw_vols L) /\
    forall j, nth j (lw_vols L') 0 == nth j (lw_vols L) 0 + delta evs j.
Proof. exact history_ledger_wf. Qed.
Print Assumptions C04_history_ledger.

(** troughs: all virtual rows of a column address the one real well of that column *)
Theorem C04_trough_alias : forall g v r c,
  wf_geom g -> g_vrows g = Some v -> (r < v)%nat -> (c < g_cols g)%nat ->
  well_index g (well_id r c) = Some (0%nat, c) /\ flat_index g (0%nat, c) = c.
Proof. exact trough_alias. Qed.
Print Assumptions C04_trough_alias.

Theorem C04_trough_alias_lw : forall L v r c,
  wf_geom (lw_geom L) -> g_vrows (lw_geom L) = Some v -> (r < v)%nat -> (c < g_cols (lw_geom L))%nat ->
  lw_index L (well_id r c) = Some c.
Proof. exact trough_alias_lw. Qed.
Print Assumptions C04_trough_alias_lw.

(** [flattenF]: scalar, 1-D, and column-major for a rectangular 2-D argument ([R] rows of length [C]) *)
Theorem C04_flatten_scalar : forall (A : Type) (x : A), flattenF (A0 x) = [x].
Proof. exact @flattenF_A0. Qed.
Print Assumptions C04_flatten_scalar.

Theorem C04_flatten_1d : forall (A : Type) (xs : list A), flattenF (A1 xs) = xs.
Proof. exact @flattenF_A1. Qed.
Print Assumptions C04_flatten_1d.

Theorem C04_flatten : forall (A : Type) (rows : list (list A)) (C : nat),
  rows <> [] -> Forall (fun r => length r = C) rows ->
  length (flattenF (A2 rows)) = (C * length rows)%nat /\
  forall r c d, (r < length rows)%nat -> (c < C)%nat ->
    nth (c * length rows + r) (flattenF (A2 rows)) d = nth c (nth r rows []) d.
Proof. exact @flattenF_A2_rect. Qed.
Print Assumptions C04_flatten.

(* ------------------------------------------------------------------ non-vacuity *)

Example C04_example_wf : wf_shape ex_plate /\ wf_shape ex_trough.
Proof. split; [exact (proj1 ex_plate_wf)|exact (proj1 ex_trough_wf)]. Qed.

(** 2-D wells read column-major, paired with a 1-D volume list; A01 is listed twice and charged twice *)
Example C04_example_add :
  let wells := A2 [["A01"; "A02"]; ["B01"; "A01"]]%string in
  let vols := A1 [XQ 1; XQ 2; XQ 3; XQ 4] in
  add ex_plate wells vols None None
    = (log (set_vols ex_plate [55; 53; 50; 52; 50; 50]) None, None) /\
  events_of ex_plate (pairs_of wells vols) = Some [(0%nat, 1); (3%nat, 2); (1%nat, 3); (0%nat, 4)].
Proof. vm_compute. split; reflexivity. Qed.

(** scalar volume broadcast over all wells; rejected call (ragged pairing) *)
Example C04_example_remove :
  lw_vols (fst (remove ex_plate (A1 ["A01"; "B03"]%string) (A0 (XQ 5)) None)) = [45; 50; 50; 50; 50; 45] /\
  remove ex_plate (A1 ["A01"; "B03"]%string) (A1 [XQ 5; XQ 5; XQ 5]) None = (ex_plate, Some EReject).
Proof. vm_compute. split; reflexivity. Qed.

(** a history on the trough: E01 and A01 are the same real well *)
Example C04_example_history :
  let cs := [CRemove (A1 ["E01"; "A01"]%string) (A0 (XQ 100)) None;
             CAdd (A0 "H02"%string) (A0 (XQ 7)) None None] in
  snd (run_calls ex_trough cs) = [None; None] /\
  lw_vols (fst (run_calls ex_trough cs)) = [19800; 5007] /\
  history_events ex_trough cs = Some [(0%nat, -(100)); (0%nat, -(100)); (1%nat, 7)].
Proof. vm_compute. repeat split; reflexivity. Qed.

Example C04_example_flatten :
  flattenF (A2 [["a"; "b"; "c"]; ["d"; "e"; "f"]]%string) = ["a"; "d"; "b"; "e"; "c"; "f"]%string.
Proof. vm_compute. reflexivity. Qed.
