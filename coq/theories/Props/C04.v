(** C04 — the ledger: after any sequence of accepted additions and removals each real well holds its
    initial volume plus everything added minus everything removed, wells not addressed are unchanged; in a
    trough every virtual-row id of a column addresses the same real well; array arguments pair wells and
    volumes element-wise in column-major order, a scalar volume applies to every well, a well listed
    several times is charged once per occurrence.  Statements only; proofs live in Proofs/LabwareProofs.v.

    Definitions used.  Spec/Invariants.v: [event] = (flat index of the real well, signed volume),
    [delta evs j] = sum of the volumes of the events on well [j]; [wf_shape], [wf_geom].
    Proofs/LabwareProofs.v:
      [events_of L wv]  one event [(i, v)] per pair [(w, XQ v)] of [wv] with [lw_index L w = Some i], in
                        order; [None] if some well is unknown or some volume is not a finite number;
      [neg_events evs]  the same events with negated volumes;
      [pairs_of wells vols] = [zip (flattenF wells) (broadcast (flattenF vols) (length (flattenF wells)))];
      [lwcall] = [CAdd wells vols label comps | CRemove wells vols label], [do_call], and
      [run_calls L cs] which runs the calls in order and collects their outcomes (like [Program.run]);
      [call_events] / [history_events L cs]: the events of one call / of all calls, concatenated.

    Worklist level (audit item M6; proofs in Proofs/WorklistLevelProofs.v): the same ledger for [aspirate],
    [dispense], [evo_aspirate], [evo_dispense], [distribute] and [transfer], with the frame (other labware
    unchanged, wells not addressed unchanged, for every outcome).  [occurrences L ws j], defined below, is
    the number of ids of [ws] that address the real well [j] of [L] (virtual rows of a trough column all
    count for the one real well).  From Proofs/PlanProofs.v: [t_triples sw dw vs] = the (source id,
    destination id, volume) triples of a [transfer] call after broadcasting; from
    Proofs/DilutionExecProofs.v: [well_out L i T] / [well_in L i T] = the sum of the volumes of the triples
    of [T] whose source / destination id addresses the real well [i] of [L]; [dist_src a] = the source
    well id of [distribute]. *)
From Robo Require Import Prelude Str Wells Utils Labware Tips Records Partition Params Worklist EvoCmd
  Program Invariants LabwareProofs PlanProofs DilutionExecProofs WorklistLevelProofs.
#[local] Open Scope Q_scope.

(** accepted [add]: wells and volumes are paired element-wise after column-major flattening ([flattenF])
    and scalar broadcasting ([broadcast]); one event per occurrence; every well changes by exactly the sum
    of its events *)
Theorem C04_add_ledger : forall L wells vols label comps L',
  add L wells vols label comps = (L', None) -> wf_shape L ->
  exists evs,
    events_of L (zip (flattenF wells) (broadcast (flattenF vols) (length (flattenF wells)))) = Some evs /\
    length (lw_vols L') = length (lw_vols L) /\
    forall j, nth j (lw_vols L') 0 == nth j (lw_vols L) 0 + delta evs j.
Proof. exact add_ledger. Qed.
Print Assumptions C04_add_ledger.

Theorem C04_remove_ledger : forall L wells vols label L',
  remove L wells vols label = (L', None) -> wf_shape L ->
  exists evs,
    events_of L (zip (flattenF wells) (broadcast (flattenF vols) (length (flattenF wells)))) = Some evs /\
    length (lw_vols L') = length (lw_vols L) /\
    forall j, nth j (lw_vols L') 0 == nth j (lw_vols L) 0 + delta (neg_events evs) j.
Proof. exact remove_ledger. Qed.
Print Assumptions C04_remove_ledger.

(** frame: a real well that no given id addresses keeps its volume exactly — for every call, accepted or
    rejected, and without any well-formedness hypothesis *)
Theorem C04_frame_add : forall L wells vols label comps j,
  (forall w, In w (flattenF wells) -> lw_index L w <> Some j) ->
  nth j (lw_vols (fst (add L wells vols label comps))) 0 = nth j (lw_vols L) 0.
Proof. exact add_frame. Qed.
Print Assumptions C04_frame_add.

Theorem C04_frame_remove : forall L wells vols label j,
  (forall w, In w (flattenF wells) -> lw_index L w <> Some j) ->
  nth j (lw_vols (fst (remove L wells vols label))) 0 = nth j (lw_vols L) 0.
Proof. exact remove_frame. Qed.
Print Assumptions C04_frame_remove.

(** a well without events has a zero balance *)
Theorem C04_delta_untouched : forall evs j,
  (forall i v, In (i, v) evs -> i <> j) -> delta evs j = 0.
Proof. exact delta_notin. Qed.
Print Assumptions C04_delta_untouched.

(** any sequence of accepted additions and removals: final = initial + sum of all deltas *)
Theorem C04_history_ledger : forall cs L L' es,
  wf_shape L -> run_calls L cs = (L', es) -> (forall e, In e es -> e = None) ->
  exists evs, history_events L cs = Some evs /\
    length (lw_vols L') = length (lw_vols L) /\
    forall j, nth j (lw_vols L') 0 == nth j (lw_vols L) 0 + delta evs j.
Proof. exact history_ledger_wf. Qed.
Print Assumptions C04_history_ledger.

(** troughs: all virtual rows of a column address the one real well of that column *)
Theorem C04_trough_alias : forall g v r c,
  wf_geom g -> g_vrows g = Some v -> (r < v)%nat -> (c < g_cols g)%nat ->
  well_index g (well_id r c) = Some (0%nat, c) /\ flat_index g (0%nat, c) = c.
Proof. exact trough_alias. Qed.
Print Assumptions C04_trough_alias.

Theorem C04_trough_alias_lw : forall L v r c,
  wf_geom (lw_geom L) -> g_vrows (lw_geom L) = Some v -> (r < v)%nat -> (c < g_cols (lw_geom L))%nat ->
  lw_index L (well_id r c) = Some c.
Proof. exact trough_alias_lw. Qed.
Print Assumptions C04_trough_alias_lw.

(** a scalar volume applies to every addressed well: with the volume [v] given as a scalar, every real well
    changes by (number of listed ids that address it) * v.  (This replaces the former [C04_flatten_scalar :
    flattenF (A0 x) = [x]], which held by definition of the model.) *)
Definition occurrences (L : labware) (ws : list string) (j : nat) : nat :=
  length (filter (fun w => match lw_index L w with Some i => (i =? j)%nat | None => false end) ws).

Theorem C04_add_scalar : forall L wells v label comps L',
  add L wells (A0 (XQ v)) label comps = (L', None) -> wf_shape L ->
  forall j, nth j (lw_vols L') 0 ==
            nth j (lw_vols L) 0 + inject_Z (Z.of_nat (occurrences L (flattenF wells) j)) * v.
Proof. exact add_scalar. Qed.
Print Assumptions C04_add_scalar.

Theorem C04_remove_scalar : forall L wells v label L',
  remove L wells (A0 (XQ v)) label = (L', None) -> wf_shape L ->
  forall j, nth j (lw_vols L') 0 ==
            nth j (lw_vols L) 0 - inject_Z (Z.of_nat (occurrences L (flattenF wells) j)) * v.
Proof. exact remove_scalar. Qed.
Print Assumptions C04_remove_scalar.

(** a real well that no listed id addresses has no occurrence *)
Theorem C04_occurrences_untouched : forall L ws j,
  (forall w, In w ws -> lw_index L w <> Some j) -> occurrences L ws j = 0%nat.
Proof. exact occurrences_zero. Qed.
Print Assumptions C04_occurrences_untouched.

(** [flattenF] of a 1-D argument is the list itself (by definition of the model; kept for reference), and
    column-major for a rectangular 2-D argument ([R] rows of length [C]) *)
Theorem C04_flatten_1d : forall (A : Type) (xs : list A), flattenF (A1 xs) = xs.
Proof. exact @flattenF_A1. Qed.
Print Assumptions C04_flatten_1d.

Theorem C04_flatten : forall (A : Type) (rows : list (list A)) (C : nat),
  rows <> [] -> Forall (fun r => length r = C) rows ->
  length (flattenF (A2 rows)) = (C * length rows)%nat /\
  forall r c d, (r < length rows)%nat -> (c < C)%nat ->
    nth (c * length rows + r) (flattenF (A2 rows)) d = nth c (nth r rows []) d.
Proof. exact @flattenF_A2_rect. Qed.
Print Assumptions C04_flatten.

(* ================================================================== worklist level (M6) *)

(** accepted [aspirate]: labware [k] changes exactly by the events of the (well, volume) pairs - paired
    element-wise after column-major flattening and scalar broadcasting ([pairs_of]), one event per occurrence -
    and every other labware is unchanged *)
Theorem C04_aspirate_ledger : forall s k wells vols label kw s',
  aspirate s k wells vols label kw = (s', None) -> wf_state s ->
  exists L L' evs, nth_error (st_lw s) k = Some L /\ nth_error (st_lw s') k = Some L' /\
    events_of L (pairs_of wells vols) = Some evs /\
    length (lw_vols L') = length (lw_vols L) /\
    (forall j, nth j (lw_vols L') 0 == nth j (lw_vols L) 0 + delta (neg_events evs) j) /\
    length (st_lw s') = length (st_lw s) /\
    forall j, j <> k -> nth_error (st_lw s') j = nth_error (st_lw s) j.
Proof. exact aspirate_ledger. Qed.
Print Assumptions C04_aspirate_ledger.

Theorem C04_dispense_ledger : forall s k wells vols label comps kw s',
  dispense s k wells vols label comps kw = (s', None) -> wf_state s ->
  exists L L' evs, nth_error (st_lw s) k = Some L /\ nth_error (st_lw s') k = Some L' /\
    events_of L (pairs_of wells vols) = Some evs /\
    length (lw_vols L') = length (lw_vols L) /\
    (forall j, nth j (lw_vols L') 0 == nth j (lw_vols L) 0 + delta evs j) /\
    length (st_lw s') = length (st_lw s) /\
    forall j, j <> k -> nth_error (st_lw s') j = nth_error (st_lw s) j.
Proof. exact dispense_ledger. Qed.
Print Assumptions C04_dispense_ledger.

Theorem C04_evo_aspirate_ledger : forall s k a label s',
  evo_aspirate s k a label = (s', None) -> wf_state s ->
  exists L L' evs, nth_error (st_lw s) k = Some L /\ nth_error (st_lw s') k = Some L' /\
    events_of L (pairs_of (c_wells a) (evo_vols (c_volume a))) = Some evs /\
    length (lw_vols L') = length (lw_vols L) /\
    (forall j, nth j (lw_vols L') 0 == nth j (lw_vols L) 0 + delta (neg_events evs) j) /\
    length (st_lw s') = length (st_lw s) /\
    forall j, j <> k -> nth_error (st_lw s') j = nth_error (st_lw s) j.
Proof. exact evo_aspirate_ledger. Qed.
Print Assumptions C04_evo_aspirate_ledger.

Theorem C04_evo_dispense_ledger : forall s k a label comps s',
  evo_dispense s k a label comps = (s', None) -> wf_state s ->
  exists L L' evs, nth_error (st_lw s) k = Some L /\ nth_error (st_lw s') k = Some L' /\
    events_of L (pairs_of (c_wells a) (evo_vols (c_volume a))) = Some evs /\
    length (lw_vols L') = length (lw_vols L) /\
    (forall j, nth j (lw_vols L') 0 == nth j (lw_vols L) 0 + delta evs j) /\
    length (st_lw s') = length (st_lw s) /\
    forall j, j <> k -> nth_error (st_lw s') j = nth_error (st_lw s) j.
Proof. exact evo_dispense_ledger. Qed.
Print Assumptions C04_evo_dispense_ledger.

(** frame, for every outcome (accepted or rejected) and without well-formedness hypotheses: other labware are
    unchanged (equal, not just in volume), and a real well of labware [k] that no given id addresses keeps
    its volume *)
Theorem C04_aspirate_frame : forall s k wells vols label kw,
  let s' := fst (aspirate s k wells vols label kw) in
  length (st_lw s') = length (st_lw s) /\
  (forall j, j <> k -> nth_error (st_lw s') j = nth_error (st_lw s) j) /\
  forall L, nth_error (st_lw s) k = Some L ->
    exists L', nth_error (st_lw s') k = Some L' /\
      forall i, (forall w, In w (flattenF wells) -> lw_index L w <> Some i) ->
                nth i (lw_vols L') 0 = nth i (lw_vols L) 0.
Proof. exact aspirate_frame. Qed.
Print Assumptions C04_aspirate_frame.

Theorem C04_dispense_frame : forall s k wells vols label comps kw,
  let s' := fst (dispense s k wells vols label comps kw) in
  length (st_lw s') = length (st_lw s) /\
  (forall j, j <> k -> nth_error (st_lw s') j = nth_error (st_lw s) j) /\
  forall L, nth_error (st_lw s) k = Some L ->
    exists L', nth_error (st_lw s') k = Some L' /\
      forall i, (forall w, In w (flattenF wells) -> lw_index L w <> Some i) ->
                nth i (lw_vols L') 0 = nth i (lw_vols L) 0.
Proof. exact dispense_frame. Qed.
Print Assumptions C04_dispense_frame.

Theorem C04_evo_aspirate_frame : forall s k a label,
  let s' := fst (evo_aspirate s k a label) in
  length (st_lw s') = length (st_lw s) /\
  (forall j, j <> k -> nth_error (st_lw s') j = nth_error (st_lw s) j) /\
  forall L, nth_error (st_lw s) k = Some L ->
    exists L', nth_error (st_lw s') k = Some L' /\
      forall i, (forall w, In w (flattenF (c_wells a)) -> lw_index L w <> Some i) ->
                nth i (lw_vols L') 0 = nth i (lw_vols L) 0.
Proof. exact evo_aspirate_frame. Qed.
Print Assumptions C04_evo_aspirate_frame.

Theorem C04_evo_dispense_frame : forall s k a label comps,
  let s' := fst (evo_dispense s k a label comps) in
  length (st_lw s') = length (st_lw s) /\
  (forall j, j <> k -> nth_error (st_lw s') j = nth_error (st_lw s) j) /\
  forall L, nth_error (st_lw s) k = Some L ->
    exists L', nth_error (st_lw s') k = Some L' /\
      forall i, (forall w, In w (flattenF (c_wells a)) -> lw_index L w <> Some i) ->
                nth i (lw_vols L') 0 = nth i (lw_vols L) 0.
Proof. exact evo_dispense_frame. Qed.
Print Assumptions C04_evo_dispense_frame.

(** scalar volume through the worklist: each real well changes by (occurrences) * v *)
Theorem C04_aspirate_scalar : forall s k wells v label kw s',
  aspirate s k wells (A0 (XQ v)) label kw = (s', None) -> wf_state s ->
  exists L L', nth_error (st_lw s) k = Some L /\ nth_error (st_lw s') k = Some L' /\
    forall j, nth j (lw_vols L') 0 ==
              nth j (lw_vols L) 0 + -(1) * (inject_Z (Z.of_nat (occurrences L (flattenF wells) j)) * v).
Proof. exact aspirate_scalar. Qed.
Print Assumptions C04_aspirate_scalar.

Theorem C04_dispense_scalar : forall s k wells v label comps kw s',
  dispense s k wells (A0 (XQ v)) label comps kw = (s', None) -> wf_state s ->
  exists L L', nth_error (st_lw s) k = Some L /\ nth_error (st_lw s') k = Some L' /\
    forall j, nth j (lw_vols L') 0 ==
              nth j (lw_vols L) 0 + 1 * (inject_Z (Z.of_nat (occurrences L (flattenF wells) j)) * v).
Proof. exact dispense_scalar. Qed.
Print Assumptions C04_dispense_scalar.

(** accepted [distribute]: the source well (real well [i_s] of labware [ks]) loses n * v, every real well of
    labware [kd] gains (occurrences among the destination ids) * v, nothing else changes; [ks = kd] allowed *)
Theorem C04_distribute_ledger : forall s ks kd dwells a s',
  distribute s ks kd dwells a = (s', None) -> wf_state s ->
  exists Ls Ld v i_s,
    nth_error (st_lw s) ks = Some Ls /\ nth_error (st_lw s) kd = Some Ld /\
    rvol_x (d_volume a) = Some (XQ v) /\ lw_index Ls (dist_src a) = Some i_s /\
    length (st_lw s') = length (st_lw s) /\
    forall j L, nth_error (st_lw s) j = Some L ->
      exists L', nth_error (st_lw s') j = Some L' /\ lw_geom L' = lw_geom L /\
        (j <> ks -> j <> kd -> L' = L) /\
        forall i, vol_at L' i == vol_at L i
            - (if ((j =? ks) && (i_s =? i))%nat
               then inject_Z (Z.of_nat (length (flattenF dwells))) * v else 0)
            + (if (j =? kd)%nat
               then inject_Z (Z.of_nat (occurrences L (flattenF dwells) i)) * v else 0).
Proof. exact distribute_ledger. Qed.
Print Assumptions C04_distribute_ledger.

(** accepted [transfer] (generalises C14_transfer_ledger_partial: also for a worklist without auto_split,
    whatever its max_volume): every real well [i] of every labware [j] changes by minus the volumes of the
    triples whose source id addresses it (if [j = ks]) plus those whose destination id addresses it (if
    [j = kd]) *)
Theorem C04_transfer_ledger_partial : forall s ks swells kd dwells vols label ws pb kw s',
  transfer s ks swells kd dwells vols label ws pb kw = (s', None) -> wf_state s ->
  w_autosplit (st_wl s) = false \/ 0 < w_max (st_wl s) ->
  length (st_lw s') = length (st_lw s) /\
  forall j L, nth_error (st_lw s) j = Some L ->
    exists L', nth_error (st_lw s') j = Some L' /\ lw_geom L' = lw_geom L /\
      forall i, vol_at L' i == vol_at L i
                             - (if (j =? ks)%nat then well_out L i (t_triples swells dwells vols) else 0)
                             + (if (j =? kd)%nat then well_in L i (t_triples swells dwells vols) else 0).
Proof. exact transfer_ledger_gen. Qed.
Print Assumptions C04_transfer_ledger_partial.

(** the statement without the hypothesis on the worklist is false (auto_split with max_volume = -2: the
    transfer of 5 uL is accepted and nothing moves; same witness as C14_transfer_ledger_refuted) *)
Theorem C04_transfer_ledger_refuted :
  exists s ks sw kd dw vols label ws pb kw s' L L',
    transfer s ks sw kd dw vols label ws pb kw = (s', None) /\ wf_state s /\
    nth_error (st_lw s) ks = Some L /\ nth_error (st_lw s') ks = Some L' /\
    ~ vol_at L' 0 == vol_at L 0
                     - (if (ks =? ks)%nat then well_out L 0 (t_triples sw dw vols) else 0)
                     + (if (ks =? kd)%nat then well_in L 0 (t_triples sw dw vols) else 0).
Proof. exact transfer_ledger_gen_refuted. Qed.
Print Assumptions C04_transfer_ledger_refuted.

(* ------------------------------------------------------------------ non-vacuity *)

Example C04_example_wf : wf_shape ex_plate /\ wf_shape ex_trough.
Proof. split; [exact (proj1 ex_plate_wf)|exact (proj1 ex_trough_wf)]. Qed.

(** 2-D wells read column-major, paired with a 1-D volume list; A01 is listed twice and charged twice *)
Example C04_example_add :
  let wells := A2 [["A01"; "A02"]; ["B01"; "A01"]]%string in
  let vols := A1 [XQ 1; XQ 2; XQ 3; XQ 4] in
  add ex_plate wells vols None None
    = (log (set_vols ex_plate [55; 53; 50; 52; 50; 50]) None, None) /\
  events_of ex_plate (pairs_of wells vols) = Some [(0%nat, 1); (3%nat, 2); (1%nat, 3); (0%nat, 4)].
Proof. vm_compute. split; reflexivity. Qed.

(** scalar volume broadcast over all wells; rejected call (ragged pairing) *)
Example C04_example_remove :
  lw_vols (fst (remove ex_plate (A1 ["A01"; "B03"]%string) (A0 (XQ 5)) None)) = [45; 50; 50; 50; 50; 45] /\
  remove ex_plate (A1 ["A01"; "B03"]%string) (A1 [XQ 5; XQ 5; XQ 5]) None = (ex_plate, Some EReject).
Proof. vm_compute. split; reflexivity. Qed.

(** a history on the trough: E01 and A01 are the same real well *)
Example C04_example_history :
  let cs := [CRemove (A1 ["E01"; "A01"]%string) (A0 (XQ 100)) None;
             CAdd (A0 "H02"%string) (A0 (XQ 7)) None None] in
  snd (run_calls ex_trough cs) = [None; None] /\
  lw_vols (fst (run_calls ex_trough cs)) = [19800; 5007] /\
  history_events ex_trough cs = Some [(0%nat, -(100)); (0%nat, -(100)); (1%nat, 7)].
Proof. vm_compute. repeat split; reflexivity. Qed.

Example C04_example_flatten :
  flattenF (A2 [["a"; "b"; "c"]; ["d"; "e"; "f"]]%string) = ["a"; "d"; "b"; "e"; "c"; "f"]%string.
Proof. vm_compute. reflexivity. Qed.

(* ------------------------------------------------------------------ non-vacuity, worklist level *)

Definition C04_ex_state : state :=
  {| st_lw := [ex_trough; ex_plate]; st_wl := init_wl Evo 950 true false |}.

Example C04_example_state : wf_state C04_ex_state.
Proof. constructor; [exact ex_trough_wf|constructor; [exact ex_plate_wf|constructor]]. Qed.

(** [aspirate] from the trough with a 2-D id array read column-major (A01, E01, A02, C02) and a scalar volume:
    A01 and E01 are the same real well (two occurrences), A02 and C02 likewise; the plate is unchanged *)
Example C04_example_aspirate :
  let r := aspirate C04_ex_state 0 (A2 [["A01"; "A02"]; ["E01"; "C02"]]%string) (A0 (XQ 100)) None kw_default in
  snd r = None /\ map lw_vols (st_lw (fst r)) = [[19800; 4800]; [50; 50; 50; 50; 50; 50]] /\
  events_of ex_trough (pairs_of (A2 [["A01"; "A02"]; ["E01"; "C02"]]%string) (A0 (XQ 100)))
    = Some [(0%nat, 100); (0%nat, 100); (1%nat, 100); (1%nat, 100)] /\
  occurrences ex_trough (flattenF (A2 [["A01"; "A02"]; ["E01"; "C02"]]%string)) 0 = 2%nat.
Proof. vm_compute. repeat split; reflexivity. Qed.

(** [dispense] with element-wise volumes, A01 listed twice *)
Example C04_example_dispense :
  let r := dispense C04_ex_state 1 (A1 ["A01"; "B02"; "A01"]%string) (A1 [XQ 1; XQ 2; XQ 3]) None None
                    kw_default in
  snd r = None /\ map lw_vols (st_lw (fst r)) = [[20000; 5000]; [54; 50; 50; 50; 52; 50]].
Proof. vm_compute. split; reflexivity. Qed.

(** [distribute] 10 uL from column 2 of the trough to A02, B02, A02: 30 out of the source, A02 charged twice *)
Example C04_example_distribute :
  let a := {| d_source_column := 1; d_volume := RVInt 10; d_diti_reuse := 1; d_multi_disp := 1;
              d_liquid_class := PStr "W"; d_label := None; d_direction := "left_to_right"%string;
              d_src_id := PStr ""; d_src_type := PStr ""; d_dst_id := PStr ""; d_dst_type := PStr "" |} in
  let r := distribute C04_ex_state 0 1 (A1 ["A02"; "B02"; "A02"]%string) a in
  snd r = None /\ map lw_vols (st_lw (fst r)) = [[20000; 4970]; [50; 70; 50; 50; 60; 50]] /\
  dist_src a = "A02"%string /\ occurrences ex_plate ["A02"; "B02"; "A02"]%string 1 = 2%nat.
Proof. vm_compute. repeat split; reflexivity. Qed.

(** [transfer] trough -> plate on a worklist without auto_split (first alternative of the hypothesis of
    [C04_transfer_ledger_partial]): 40 uL from A01 of the trough to A01 and B01 of the plate *)
Example C04_example_transfer :
  let s := {| st_lw := [ex_trough; ex_plate]; st_wl := init_wl Evo 950 false false |} in
  let r := transfer s 0 (A0 "A01"%string) 1 (A1 ["A01"; "B01"]%string) (A0 40) None SFlush "auto"%string
                    kw_default in
  snd r = None /\ map lw_vols (st_lw (fst r)) = [[19920; 5000]; [90; 50; 50; 90; 50; 50]] /\
  (w_autosplit (st_wl s) = false \/ 0 < w_max (st_wl s)).
Proof. vm_compute. repeat split; try reflexivity. left. reflexivity. Qed.
